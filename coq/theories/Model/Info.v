(** * The information set xml-info builds from the parse model (info/src/lib.rs).

    INTERFACE (kept small; builder-wf states C01/C02 against it):
    - data: [document] = XmlDocument { children, encoding, standalone, version }, a rose tree of
      [item] (= XmlItem: element / text / CDATA / character reference / comment / PI /
      unexpanded entity reference / document type), [attr] with its value pieces [avalue],
      [doctype] with its children [dtd_item] (attribute-list declaration / general entity /
      notation / PI, in declaration order), [entity].  Exactly the data the accessors, the
      [fmt::Display] impls and the [PartialEq] impls read.  Ids, order keys, parent links,
      base URIs (always "") and [from_dtd] (always false on built documents) are left out.
    - [build_document : pdoc -> ires document]  = XmlDocument::new, with its error results
      ([IErr]) and panics ([IPanic]) as values.
    - [from_raw : str -> outcome (str * document)]  = xml_dom::XmlDocument::from_raw:
      parse, then build; the first component is the unconsumed rest.
    - [expand] = attr_value_from_name / XmlUnexpandedEntityReference::value (entity expansion).
    - derived accessors used by the dump: [doc_notations], [doc_unparsed_entities], [impl_eq].

    The model follows /repo main as of c7c3294, i.e. WITH the repairs of this area
    (bd92e3d: parameter entities give Error::InvalidData instead of unimplemented!, D07;
    ed2c470: entity recursion detected during expansion, D09) and with builder-wf's
    well-formedness checks in XmlDocument::new (unique attribute names, legal characters,
    [check_entity_ref]: parsed / internal / non-recursive / declared entities, no < in attribute
    values, replacement text matches `content`).  The behaviour WITHOUT the two repairs of this
    area is kept next to it ([build_document_pinned], [expand_pinned]) for the refutation
    theorems of Properties/C03.v. *)
From Coq Require Import List NArith Bool.
From XmlRs Require Import Base.CPred Model.Peg Model.ParseActions Gen.XmlcharGen Gen.GrammarXmlGen.
Import ListNotations.
Local Open Scope N_scope.

(** ** results *)
Inductive ierror :=
| NotFoundReference (what : str)          (* undeclared entity, or character reference that is no char *)
| InvalidData (what : str).               (* after bd92e3d / ed2c470: parameter entities, recursion *)

Inductive panic_site :=
| PsParameterEntityDecl                   (* XmlDocumentTypeDeclaration::node, unimplemented! (pinned code) *)
| PsParameterEntityRef                    (* XmlDocumentTypeDeclaration::node, unimplemented! (pinned code) *)
| PsParameterEntityValue.                 (* attr_value_from_name, unimplemented! (pinned code) *)

Inductive ires (A : Type) := IOk (a : A) | IErr (e : ierror) | IPanic (site : panic_site) | IOof.
Arguments IOk {A} a.
Arguments IErr {A} e.
Arguments IPanic {A} site.
Arguments IOof {A}.

Definition ibind {A B} (x : ires A) (f : A -> ires B) : ires B :=
  match x with IOk a => f a | IErr e => IErr e | IPanic s => IPanic s | IOof => IOof end.

(** ** data *)
Inductive ent_value :=                    (* XmlEntityValue *)
| XvCharacter (num : str) (r : radix) | XvEntity (name : str) | XvParameter (name : str) | XvText (s : str).

Record entity := Entity {                 (* XmlEntity *)
  en_name : str; en_values : option (list ent_value);
  en_system : option str; en_public : option str; en_notation : option str }.

Inductive avalue :=                       (* XmlAttributeValue *)
| XaChar (text num : str) (r : radix)     (* XmlCharReference { text, num, radix } *)
| XaEntity (e : entity)                   (* XmlUnexpandedEntityReference { entity, .. } *)
| XaText (s : str).

Record attr := Attr { xa_local : str; xa_prefix : option str; xa_values : list avalue }.

Inductive adefault := XdRequired | XdImplied | XdValue (fixed : option str) (v : list avalue).
(** XmlDeclarationAttType is isomorphic to the parser's DeclarationAttType: [att_type] is reused *)
Record attdef := AttDefI { xd_local : str; xd_prefix : option str; xd_ty : att_type; xd_value : adefault }.
Record attlist := AttList { al_local : str; al_prefix : option str; al_atts : list attdef }.
Record notation := Notation { no_name : str; no_system : option str; no_public : option str }.

Inductive dtd_item := DtAttList (a : attlist) | DtEntity (e : entity) | DtNotation (n : notation) | DtPI (p : ppi).

Record doctype := DocType {
  dt_local : str; dt_prefix : option str; dt_system : option str; dt_public : option str;
  dt_children : list dtd_item }.

Inductive item :=
| ItElement (local : str) (prefix : option str) (attrs : list attr) (children : list item)
| ItText (s : str)
| ItCData (s : str)
| ItCharRef (text num : str) (r : radix)
| ItComment (s : str)
| ItPI (p : ppi)                          (* target, content : Option<String> *)
| ItUnexpanded (e : entity)
| ItDocType (d : doctype).

Record document := Doc {
  doc_children : list item; doc_encoding : str; doc_standalone : option bool; doc_version : option str }.

(** ** helpers *)
Definition qname_parts (q : qname) : str * option str :=          (* fn qname *)
  match q with Prefixed p l => (l, Some p) | Unprefixed n => (n, None) end.

Definition s_xmlns : str := [120;109;108;110;115].
Definition attribute_name (n : att_name) : str * option str :=    (* fn attribute_name *)
  match n with
  | AnDefaultNamespace => (s_xmlns, None)
  | AnNamespace v => (v, Some s_xmlns)
  | AnQName q => qname_parts q
  end.

Definition external_id_parts (x : external_id) : str * option str :=   (* fn external_id: (system, public) *)
  match x with ExPublic p s => (s, Some p) | ExSystem s => (s, None) end.

(** [str::parse::<u32>] / [u32::from_str_radix(_, 16)]: optional '+', then one or more digits,
    no overflow *)
Definition digit_val (r : radix) (c : N) : option N :=
  if (48 <=? c) && (c <=? 57) then Some (c - 48)
  else match r with
       | Dec => None
       | Hex => if (97 <=? c) && (c <=? 102) then Some (c - 87)
                else if (65 <=? c) && (c <=? 70) then Some (c - 55) else None
       end.
Definition radix_n (r : radix) : N := match r with Dec => 10 | Hex => 16 end.
Fixpoint digits_val (r : radix) (acc : N) (s : str) : option N :=
  match s with
  | [] => Some acc
  | c :: s' => match digit_val r c with Some d => digits_val r (acc * radix_n r + d) s' | None => None end
  end.
Definition parse_u32 (r : radix) (s : str) : option N :=
  let ds := match s with 43 :: (_ :: _) as t => t | _ => s end in
  match ds with
  | [] => None
  | _ => match digits_val r 0 ds with
         | Some n => if n <=? 4294967295 then Some n else None
         | None => None
         end
  end.
(** [char::from_u32] *)
Definition is_scalar (n : N) : bool := (n <? 55296) || ((57344 <=? n) && (n <=? 1114111)).

(** fn char_from_char10 / char_from_char16 *)
Definition char_ref_err (num : str) (r : radix) : ierror :=
  NotFoundReference (match r with Dec => 35 :: num | Hex => 35 :: 120 :: num end).
(** WFC Legal Character (3438313): char::from_u32(num) filtered by xmlchar::is_char *)
Definition char_from (num : str) (r : radix) : ires N :=
  match parse_u32 r num with
  | Some n => if is_scalar n && eval is_char n then IOk n else IErr (char_ref_err num r)
  | None => IErr (char_ref_err num r)
  end.

(** Context::entity: first general entity of that name declared in the document type
    declaration that is ALREADY a child of the document, else the five predefined ones *)
Definition builtin_entity (name v : str) : entity := Entity name (Some [XvText v]) None None None.
Definition predefined (name : str) : option entity :=
  if str_eqb name [108;116] then Some (builtin_entity name [60])
  else if str_eqb name [103;116] then Some (builtin_entity name [62])
  else if str_eqb name [97;109;112] then Some (builtin_entity name [38])
  else if str_eqb name [97;112;111;115] then Some (builtin_entity name [39])
  else if str_eqb name [113;117;111;116] then Some (builtin_entity name [34])
  else None.
(** the boolean says whether the entity is a declared one ([parent_id] is Some) *)
Definition lookup_entity2 (ents : list entity) (name : str) : ires (entity * bool) :=
  match find (fun e => str_eqb (en_name e) name) ents with
  | Some e => IOk (e, true)
  | None => match predefined name with Some e => IOk (e, false) | None => IErr (NotFoundReference name) end
  end.
Definition lookup_entity (ents : list entity) (name : str) : ires entity :=
  ibind (lookup_entity2 ents name) (fun x => IOk (fst x)).

(** ** fn check_entity_ref (builder-wf, c00bacf .. ba6ea81): the well-formedness constraints on
    the replacement text of an entity referred to in an attribute value ([attribute]) or in
    content.  [seen] is the HashMap name -> "check complete"; [ext] = Context::external_subset
    (an undeclared entity may then come from the external subset, which is not read).
    One unit of fuel per entity entered; [length ents + 2] always suffices because an entity
    whose name is in [seen] is not entered again. *)
Fixpoint seen_get (seen : list (str * bool)) (n : str) : option bool :=
  match seen with
  | [] => None
  | (k, b) :: seen' => if str_eqb k n then Some b else seen_get seen' n
  end.

Definition d_ent_value_text (v : ent_value) : str :=        (* Display for XmlEntityValue *)
  match v with
  | XvCharacter num r => match r with Dec => 38 :: 35 :: num ++ [59] | Hex => 38 :: 35 :: 120 :: num ++ [59] end
  | XvEntity n => 38 :: n ++ [59]
  | XvParameter n => 37 :: n ++ [59]
  | XvText s => s
  end.

(** the text whose match against `content` is required: character references replaced *)
Fixpoint replacement_text (vs : list ent_value) : ires str :=
  match vs with
  | [] => IOk []
  | XvCharacter num r :: vs' => ibind (char_from num r) (fun c => ibind (replacement_text vs') (fun t => IOk (c :: t)))
  | v :: vs' => ibind (replacement_text vs') (fun t => IOk (d_ent_value_text v ++ t))
  end.

(** [matches!(xml_parser::content(text), Ok(("", _)))] *)
Definition content_full (text : str) : bool :=
  match run G_xml G_xml_R nt_content text with Ok (_, []) => true | _ => false end.

Definition is_some {A} (o : option A) : bool := match o with Some _ => true | None => false end.

(** one piece of the replacement text: (it contributes a '<', the updated [seen]) *)
Definition check_value (rec : list (str * bool) -> entity -> bool -> ires (list (str * bool)))
           (ents : list entity) (ext : bool) (seen : list (str * bool)) (v : ent_value)
  : ires (bool * list (str * bool)) :=
  match v with
  | XvCharacter num r => ibind (char_from num r) (fun c => IOk (N.eqb c 60, seen))
  | XvEntity n =>
    match lookup_entity2 ents n with
    | IOk (e', d') => ibind (rec seen e' d') (fun s' => IOk (false, s'))
    | IErr er => if ext then IOk (false, seen) else IErr er      (* WFC Entity Declared *)
    | IPanic p => IPanic p
    | IOof => IOof
    end
  | XvParameter _ => IOk (false, seen)
  | XvText t => IOk (existsb (N.eqb 60) t, seen)
  end.
Fixpoint check_values (rec : list (str * bool) -> entity -> bool -> ires (list (str * bool)))
         (ents : list entity) (ext attribute : bool) (name : str) (vs : list ent_value)
         (seen : list (str * bool)) : ires (list (str * bool)) :=
  match vs with
  | [] => IOk seen
  | v :: vs' =>
    ibind (check_value rec ents ext seen v) (fun x =>
    if attribute && fst x then IErr (InvalidData name)             (* WFC No < in Attribute Values *)
    else check_values rec ents ext attribute name vs' (snd x))
  end.

Fixpoint check_entity_ref (fuel : nat) (ents : list entity) (ext attribute : bool)
         (seen : list (str * bool)) (e : entity) (declared : bool) : ires (list (str * bool)) :=
  match fuel with
  | O => IOof
  | S f =>
    if negb declared then IOk seen                                               (* predefined *)
    else if is_some (en_notation e) then IErr (InvalidData (en_name e))          (* WFC Parsed Entity *)
    else if attribute && is_some (en_system e) then IErr (InvalidData (en_name e)) (* No External Entity References *)
    else match seen_get seen (en_name e) with
    | Some true => IOk seen
    | Some false => IErr (InvalidData (en_name e))                               (* WFC No Recursion *)
    | None =>
      let vs := match en_values e with Some l => l | None => [] end in
      ibind (if attribute then IOk tt
             else ibind (replacement_text vs) (fun t =>
                  if content_full t then IOk tt else IErr (InvalidData (en_name e)))) (fun _ =>
      ibind (check_values (check_entity_ref f ents ext attribute) ents ext attribute (en_name e) vs
                          ((en_name e, false) :: seen)) (fun seen2 =>
      IOk ((en_name e, true) :: seen2)))
    end
  end.
Definition check_fuel (ents : list entity) : nat := length ents + 2.

(** an entity reference in an attribute value or in content: Context::entity, then the check *)
Definition resolve_ref (ents : list entity) (ext attribute : bool) (name : str) : ires entity :=
  ibind (lookup_entity2 ents name) (fun x =>
  ibind (check_entity_ref (check_fuel ents) ents ext attribute [] (fst x) (snd x)) (fun _ => IOk (fst x))).

(** ** attributes *)
(** XmlAttributeValue::new *)
Definition build_avalue (ents : list entity) (ext : bool) (v : att_value) : ires (option avalue) :=
  match v with
  | AvReference (RefChar num r) => ibind (char_from num r) (fun c => IOk (Some (XaChar [c] num r)))
  | AvReference (RefEntity name) => ibind (resolve_ref ents ext true name) (fun e => IOk (Some (XaEntity e)))
  | AvText [] => IOk None
  | AvText s => IOk (Some (XaText s))
  end.
Fixpoint build_avalues (ents : list entity) (ext : bool) (l : list att_value) : ires (list avalue) :=
  match l with
  | [] => IOk []
  | v :: l' => ibind (build_avalue ents ext v) (fun a =>
               ibind (build_avalues ents ext l') (fun r =>
               IOk (match a with Some x => x :: r | None => r end)))
  end.
(** XmlAttribute::node *)
Definition build_attr (ents : list entity) (ext : bool) (a : attribute) : ires attr :=
  let (local, prefix) := attribute_name (at_name a) in
  ibind (build_avalues ents ext (at_value a)) (fun vs => IOk (Attr local prefix vs)).

(** derived PartialEq of xml_nom::model::QName and parser::model::AttributeName *)
Definition qname_eqb (a b : qname) : bool :=
  match a, b with
  | Prefixed p l, Prefixed p' l' => str_eqb p p' && str_eqb l l'
  | Unprefixed n, Unprefixed n' => str_eqb n n'
  | _, _ => false
  end.
Definition att_name_eqb (a b : att_name) : bool :=
  match a, b with
  | AnDefaultNamespace, AnDefaultNamespace => true
  | AnNamespace s, AnNamespace s' => str_eqb s s'
  | AnQName q, AnQName q' => qname_eqb q q'
  | _, _ => false
  end.

(** the attribute loop of XmlElement::node; [before] = the attributes already taken, for the
    WFC Unique Att Spec test of affceca *)
Fixpoint build_attrs_from (ents : list entity) (ext : bool) (before : list attribute) (l : list attribute)
  : ires (list attr) :=
  match l with
  | [] => IOk []
  | a :: l' =>
    if existsb (fun v => att_name_eqb (at_name v) (at_name a)) before
    then IErr (InvalidData (fst (attribute_name (at_name a))))
    else ibind (build_attr ents ext a) (fun x =>
         ibind (build_attrs_from ents ext (before ++ [a]) l') (fun r => IOk (x :: r)))
  end.
Definition build_attrs (ents : list entity) (ext : bool) (l : list attribute) : ires (list attr) :=
  build_attrs_from ents ext [] l.

(** ** elements: XmlElement::node *)
Definition text_item (o : option str) : list item :=
  match o with Some (c :: s) => [ItText (c :: s)] | _ => [] end.

(** the children loop of XmlElement::node; [rec] builds a child element (a section variable so
    that [build_cells rec] is [fix] applied outside: the guard checker then accepts the nested
    recursion of [build_element]) *)
Section Cells.
Variable rec : element -> ires item.
Variable ents : list entity.
Variable ext : bool.
Definition build_child (ch : contents_of element) : ires item :=
  match ch with
  | CsElement e' => rec e'
  | CsReference (RefChar num r) => ibind (char_from num r) (fun c => IOk (ItCharRef [c] num r))
  | CsReference (RefEntity name) => ibind (resolve_ref ents ext false name) (fun x => IOk (ItUnexpanded x))
  | CsCData s => IOk (ItCData s)
  | CsPI p => IOk (ItPI p)
  | CsComment s => IOk (ItComment s)
  end.
Fixpoint build_cells (l : list (contents_of element * option str)) : ires (list item) :=
  match l with
  | [] => IOk []
  | (ch, tail) :: l' =>
    ibind (build_child ch) (fun it =>
    ibind (build_cells l') (fun r => IOk (it :: text_item tail ++ r)))
  end.
End Cells.

Fixpoint build_element (ents : list entity) (ext : bool) (e : element) : ires item :=
  match e with
  | Element n attrs c =>
    ibind (build_attrs ents ext attrs) (fun attrs' =>
    match c with
    | None => IOk (ItElement (fst (qname_parts n)) (snd (qname_parts n)) attrs' [])
    | Some (head, cells) =>
      ibind (build_cells (build_element ents ext) ents ext cells) (fun ch =>
      IOk (ItElement (fst (qname_parts n)) (snd (qname_parts n)) attrs' (text_item head ++ ch)))
    end)
  end.

(** ** document type declaration *)
Definition build_ent_value (v : entity_value) : ent_value :=       (* XmlEntityValue::new *)
  match v with
  | EvPeReference s => XvParameter s
  | EvReference (RefChar num r) => XvCharacter num r
  | EvReference (RefEntity n) => XvEntity n
  | EvText s => XvText s
  end.
Definition build_entity (name : str) (d : entity_def) : entity :=   (* XmlEntity::node *)
  match d with
  | EdValue l => Entity name (Some (map build_ent_value l)) None None None
  | EdExternal x n => Entity name None (Some (fst (external_id_parts x))) (snd (external_id_parts x)) n
  end.
Definition build_notation (d : decl_notation) : notation :=         (* XmlNotation::node *)
  match dn_id d with
  | NiExternal x => Notation (dn_name d) (Some (fst (external_id_parts x))) (snd (external_id_parts x))
  | NiPublic p => Notation (dn_name d) None (Some p)
  end.
(** XmlDeclarationAttDef::new.  Since 7c6f42b the document type declaration is attached to the
    document before its markup declarations are read: a default value sees the general entities
    declared BEFORE the attribute-list declaration ([acc]) and Context::external_subset answers
    for this declaration ([ext]) *)
Definition build_attdef (acc : list entity) (ext : bool) (d : att_def) : ires attdef :=
  let (local, prefix) := match ad_name d with DanAttr q => qname_parts q | DanNamespace a => attribute_name a end in
  ibind (match ad_value d with
         | AdRequired => IOk XdRequired
         | AdImplied => IOk XdImplied
         | AdValue f vs => ibind (build_avalues acc ext vs) (fun vs' => IOk (XdValue f vs'))
         end) (fun dv => IOk (AttDefI local prefix (ad_ty d) dv)).
Fixpoint build_attdefs (acc : list entity) (ext : bool) (l : list att_def) : ires (list attdef) :=
  match l with
  | [] => IOk []
  | d :: l' => ibind (build_attdef acc ext d) (fun x => ibind (build_attdefs acc ext l') (fun r => IOk (x :: r)))
  end.
Definition build_attlist (acc : list entity) (ext : bool) (d : decl_att) : ires attlist :=   (* XmlDeclarationAttList::node *)
  ibind (build_attdefs acc ext (da_defs d)) (fun atts =>
  IOk (AttList (fst (qname_parts (da_name d))) (snd (qname_parts (da_name d))) atts)).

Definition s_percent_sp (n : str) : str := 37 :: 32 :: n.             (* format!("% {}", name) *)
Definition s_pe_ref (n : str) : str := 37 :: n ++ [59].                (* format!("%{};", name) *)
Definition s_ge_ref (n : str) : str := 38 :: n ++ [59].                (* format!("&{};", name) *)

(** 7003a5e / 584b4c9: when a general entity with a literal value is declared, a parameter-entity
    reference in the value is refused and every character reference must denote a Char *)
Fixpoint check_entity_values (l : list entity_value) : ires unit :=
  match l with
  | [] => IOk tt
  | EvPeReference v :: _ => IErr (InvalidData (s_pe_ref v))
  | EvReference (RefChar num r) :: l' => ibind (char_from num r) (fun _ => check_entity_values l')
  | _ :: l' => check_entity_values l'
  end.
Definition check_entity_decl (d : entity_def) : ires unit :=
  match d with EdValue l => check_entity_values l | EdExternal _ _ => IOk tt end.

(** [pinned] selects the code before bd92e3d (unimplemented!) *)
(** [acc] = the general entities declared so far (what Context::entity sees) *)
Fixpoint build_subset (pinned ext : bool) (acc : list entity) (l : list int_subset) : ires (list dtd_item) :=
  match l with
  | [] => IOk []
  | x :: l' =>
    match x with
    | IsMarkup (MkAttributes d) =>
      ibind (build_attlist acc ext d) (fun a => ibind (build_subset pinned ext acc l') (fun r => IOk (DtAttList a :: r)))
    | IsMarkup (MkComment _) | IsMarkup (MkElement _) | IsWhitespace _ => build_subset pinned ext acc l'
    | IsMarkup (MkEntity (DeGeneral n d)) =>
      ibind (check_entity_decl d) (fun _ =>
      ibind (build_subset pinned ext (acc ++ [build_entity n d]) l') (fun r => IOk (DtEntity (build_entity n d) :: r)))
    | IsMarkup (MkEntity (DeParameter n _)) =>
      if pinned then IPanic PsParameterEntityDecl else IErr (InvalidData (s_percent_sp n))
    | IsMarkup (MkNotation d) => ibind (build_subset pinned ext acc l') (fun r => IOk (DtNotation (build_notation d) :: r))
    | IsMarkup (MkPI p) => ibind (build_subset pinned ext acc l') (fun r => IOk (DtPI p :: r))
    | IsPeReference n =>
      if pinned then IPanic PsParameterEntityRef else IErr (InvalidData (s_pe_ref n))
    end
  end.

(** Context::external_subset: declarations may come from an external subset, which is not read *)
Definition external_subset (standalone : option bool) (system : option str) : bool :=
  negb (match standalone with Some true => true | _ => false end) && is_some system.

Definition build_doctype (pinned : bool) (standalone : option bool) (d : decl_doc) : ires doctype :=   (* XmlDocumentTypeDeclaration::node_attached *)
  ibind (build_subset pinned
           (external_subset standalone (match dd_external_id d with Some x => Some (fst (external_id_parts x)) | None => None end))
           [] (dd_internal_subset d)) (fun ch =>
  IOk (DocType (fst (qname_parts (dd_name d))) (snd (qname_parts (dd_name d)))
               (match dd_external_id d with Some x => Some (fst (external_id_parts x)) | None => None end)
               (match dd_external_id d with Some x => snd (external_id_parts x) | None => None end)
               ch)).

Definition dt_entities (d : doctype) : list entity :=                (* XmlDocumentTypeDeclaration::entities *)
  flat_map (fun c => match c with DtEntity e => [e] | _ => [] end) (dt_children d).
Definition dt_notations (d : doctype) : list notation :=
  flat_map (fun c => match c with DtNotation n => [n] | _ => [] end) (dt_children d).
Definition dt_attlists (d : doctype) : list attlist :=
  flat_map (fun c => match c with DtAttList a => [a] | _ => [] end) (dt_children d).
Definition dt_pis (d : doctype) : list ppi :=
  flat_map (fun c => match c with DtPI p => [p] | _ => [] end) (dt_children d).

(** ** the document: XmlDocument::new *)
Definition misc_items (l : list misc) : list item :=                  (* add_misc *)
  flat_map (fun m => match m with MiComment s => [ItComment s] | MiPI p => [ItPI p] | MiWhitespace _ => [] end) l.

Definition build_document_gen (pinned : bool) (d : pdoc) : ires document :=
  let p := d_prolog d in
  ibind (match pr_declaration_doc p with
         | Some dd => ibind (build_doctype pinned (match pr_declaration_xml p with Some x => dx_standalone x | None => None end) dd)
                            (fun x => IOk (Some x))
         | None => IOk None
         end) (fun dt =>
  ibind (build_element (match dt with Some x => dt_entities x | None => [] end)
                       (external_subset (match pr_declaration_xml p with Some x => dx_standalone x | None => None end)
                                        (match dt with Some x => dt_system x | None => None end))
                       (d_element d)) (fun el =>
  IOk (Doc (misc_items (pr_heads p)
            ++ (match dt with Some x => [ItDocType x] | None => [] end)
            ++ misc_items (pr_tails p) ++ [el] ++ misc_items (d_miscs d))
           (match pr_declaration_xml p with Some x => match dx_encoding x with Some e => e | None => [] end | None => [] end)
           (match pr_declaration_xml p with Some x => dx_standalone x | None => None end)
           (match pr_declaration_xml p with Some x => Some (dx_version x) | None => None end)))).

Definition build_document : pdoc -> ires document := build_document_gen false.
Definition build_document_pinned : pdoc -> ires document := build_document_gen true.

(** XmlAttribute::namespace: xmlns:p=.. or xmlns=..; p:xmlns=.. is an ordinary attribute (f146ad9) *)
Definition attr_namespace (a : attr) : bool :=
  match xa_prefix a with Some p => str_eqb p s_xmlns | None => str_eqb (xa_local a) s_xmlns end.

(** ** accessors of the document that are not plain projections *)
Definition doc_doctype (d : document) : option doctype :=            (* document_declaration *)
  match flat_map (fun c => match c with ItDocType x => [x] | _ => [] end) (doc_children d) with
  | x :: _ => Some x
  | [] => None
  end.
(** Document::notations: None when two notations share a name *)
Definition doc_notations (d : document) : option (list notation) :=
  let ns := match doc_doctype d with Some x => dt_notations x | None => [] end in
  if forallb (fun n => Nat.leb (length (filter (fun m => str_eqb (no_name m) (no_name n)) ns)) 1) ns
  then Some ns else None.
(** Document::unparsed_entities: the entities that have a notation name *)
Definition doc_unparsed_entities (d : document) : list entity :=
  filter (fun e => match en_notation e with Some _ => true | None => false end)
         (match doc_doctype d with Some x => dt_entities x | None => [] end).
Definition doc_entities (d : document) : list entity :=
  match doc_doctype d with Some x => dt_entities x | None => [] end.

(** ** entity expansion: attr_value_from_name = XmlUnexpandedEntityReference::value *)
Definition normalize_ws (s : str) : str :=
  map (fun c => if N.eqb c 13 || N.eqb c 10 || N.eqb c 9 then 32 else c) s.

(** [checked] = the code after ed2c470 (a name already on the path of the expansion is an
    error); [pinned_pe] = the code before bd92e3d.  One unit of fuel per entity entered. *)
(** [in_attribute]: attr_value_from_name (true: a character reference of the entity value is a
    literal character of the replacement text, whose white space is normalised, D37) or
    XmlUnexpandedEntityReference::value (false) *)
Definition expand_value (rec : str -> ires str) (pinned_pe in_attribute : bool) (v : ent_value) : ires str :=
  match v with
  | XvCharacter num r => ibind (char_from num r) (fun c => IOk (if in_attribute then normalize_ws [c] else [c]))
  | XvEntity n => rec n
  | XvParameter n => if pinned_pe then IPanic PsParameterEntityValue else IErr (InvalidData (s_pe_ref n))
  | XvText s => IOk (if in_attribute then normalize_ws s else s)     (* c7c3294 *)
  end.
Fixpoint expand_values (rec : str -> ires str) (pinned_pe in_attribute : bool) (vs : list ent_value) : ires str :=
  match vs with
  | [] => IOk []
  | v :: vs' => ibind (expand_value rec pinned_pe in_attribute v) (fun a =>
                ibind (expand_values rec pinned_pe in_attribute vs') (fun b => IOk (a ++ b)))
  end.
Fixpoint expand_gen (checked pinned_pe in_attribute : bool) (fuel : nat) (ents : list entity) (path : list str) (name : str)
  : ires str :=
  match fuel with
  | O => IOof
  | S f =>
    if checked && existsb (str_eqb name) path then IErr (InvalidData (s_ge_ref name)) else
    ibind (lookup_entity ents name) (fun e =>
    expand_values (expand_gen checked pinned_pe in_attribute f ents (name :: path)) pinned_pe in_attribute
                  (match en_values e with Some l => l | None => [] end))
  end.

(** enough for every table when recursion is checked (Proofs/Expansion.v) *)
Definition expand_fuel (ents : list entity) : nat := length ents + 7.
(** XmlUnexpandedEntityReference::value of a reference in content *)
Definition expand (ents : list entity) (name : str) : ires str :=
  expand_gen true false false (expand_fuel ents) ents [] name.
(** attr_value_from_name; also XmlUnexpandedEntityReference::value of a reference inside an attribute value *)
Definition expand_attr (ents : list entity) (name : str) : ires str :=
  expand_gen true false true (expand_fuel ents) ents [] name.
Definition expand_pinned (fuel : nat) (ents : list entity) (name : str) : ires str :=
  expand_gen false true false fuel ents [] name.

(** "some entity reachable from [name] refers back to an entity on the path": the guard the
    harness evaluates before it calls value() (harness/src/domains/parse.rs, [cyclic]) *)
Fixpoint cyclic_from (fuel : nat) (ents : list entity) (path : list str) (name : str) : bool :=
  match fuel with
  | O => true
  | S f =>
    if existsb (str_eqb name) path then true else
    match find (fun e => str_eqb (en_name e) name) ents with
    | None => false
    | Some e =>
      existsb (fun v => match v with XvEntity n => cyclic_from f ents (name :: path) n | _ => false end)
              (match en_values e with Some l => l | None => [] end)
    end
  end.
Definition cyclic (ents : list entity) (name : str) : bool := cyclic_from (length ents + 2) ents [] name.

(** ** the hand-written PartialEq impls ([==] on documents): structural, except that a character
    reference compares its character only (XmlCharReference::eq) *)
Definition opt_eqb {A} (f : A -> A -> bool) (a b : option A) : bool :=
  match a, b with Some x, Some y => f x y | None, None => true | _, _ => false end.
Fixpoint list_eqb {A} (f : A -> A -> bool) (a b : list A) : bool :=
  match a, b with
  | [], [] => true
  | x :: a', y :: b' => f x y && list_eqb f a' b'
  | _, _ => false
  end.
Definition radix_eqb (a b : radix) : bool := match a, b with Dec, Dec | Hex, Hex => true | _, _ => false end.
Definition ent_value_eqb (a b : ent_value) : bool :=
  match a, b with
  | XvCharacter n r, XvCharacter n' r' => str_eqb n n' && radix_eqb r r'
  | XvEntity n, XvEntity n' | XvParameter n, XvParameter n' | XvText n, XvText n' => str_eqb n n'
  | _, _ => false
  end.
Definition entity_eqb (a b : entity) : bool :=
  str_eqb (en_name a) (en_name b) && opt_eqb (list_eqb ent_value_eqb) (en_values a) (en_values b)
  && opt_eqb str_eqb (en_system a) (en_system b) && opt_eqb str_eqb (en_public a) (en_public b)
  && opt_eqb str_eqb (en_notation a) (en_notation b).
Definition avalue_eqb (a b : avalue) : bool :=
  match a, b with
  | XaChar t _ _, XaChar t' _ _ => str_eqb t t'
  | XaEntity e, XaEntity e' => entity_eqb e e'
  | XaText s, XaText s' => str_eqb s s'
  | _, _ => false
  end.
Definition attr_eqb (a b : attr) : bool :=
  str_eqb (xa_local a) (xa_local b) && opt_eqb str_eqb (xa_prefix a) (xa_prefix b)
  && list_eqb avalue_eqb (xa_values a) (xa_values b).
Definition att_type_eqb (a b : att_type) : bool :=
  match a, b with
  | AtCdata, AtCdata | AtEntities, AtEntities | AtEntity, AtEntity | AtId, AtId | AtIdRef, AtIdRef
  | AtIdRefs, AtIdRefs | AtNmToken, AtNmToken | AtNmTokens, AtNmTokens => true
  | AtNotation l, AtNotation l' | AtEnumeration l, AtEnumeration l' => list_eqb str_eqb l l'
  | _, _ => false
  end.
Definition adefault_eqb (a b : adefault) : bool :=
  match a, b with
  | XdRequired, XdRequired | XdImplied, XdImplied => true
  | XdValue f v, XdValue f' v' => opt_eqb str_eqb f f' && list_eqb avalue_eqb v v'
  | _, _ => false
  end.
Definition attdef_eqb (a b : attdef) : bool :=
  str_eqb (xd_local a) (xd_local b) && opt_eqb str_eqb (xd_prefix a) (xd_prefix b)
  && att_type_eqb (xd_ty a) (xd_ty b) && adefault_eqb (xd_value a) (xd_value b).
Definition ppi_eqb (a b : ppi) : bool :=
  str_eqb (pi_target a) (pi_target b) && opt_eqb str_eqb (pi_value a) (pi_value b).
Definition dtd_item_eqb (a b : dtd_item) : bool :=
  match a, b with
  | DtAttList x, DtAttList y =>
    str_eqb (al_local x) (al_local y) && opt_eqb str_eqb (al_prefix x) (al_prefix y)
    && list_eqb attdef_eqb (al_atts x) (al_atts y)
  | DtEntity x, DtEntity y => entity_eqb x y
  | DtNotation x, DtNotation y =>
    str_eqb (no_name x) (no_name y) && opt_eqb str_eqb (no_system x) (no_system y)
    && opt_eqb str_eqb (no_public x) (no_public y)
  | DtPI x, DtPI y => ppi_eqb x y
  | _, _ => false
  end.
Definition doctype_eqb (a b : doctype) : bool :=
  str_eqb (dt_local a) (dt_local b) && opt_eqb str_eqb (dt_prefix a) (dt_prefix b)
  && opt_eqb str_eqb (dt_system a) (dt_system b) && opt_eqb str_eqb (dt_public a) (dt_public b)
  && list_eqb dtd_item_eqb (dt_children a) (dt_children b).
Fixpoint item_eqb (a b : item) {struct a} : bool :=
  match a, b with
  | ItElement l p at_ ch, ItElement l' p' at' ch' =>
    str_eqb l l' && opt_eqb str_eqb p p'
    && (fix go (x y : list item) {struct x} : bool :=
          match x, y with
          | [], [] => true
          | i :: x', j :: y' => item_eqb i j && go x' y'
          | _, _ => false
          end) ch ch'
    && list_eqb attr_eqb at_ at'
  | ItText s, ItText s' | ItCData s, ItCData s' | ItComment s, ItComment s' => str_eqb s s'
  | ItCharRef t _ _, ItCharRef t' _ _ => str_eqb t t'
  | ItPI p, ItPI p' => ppi_eqb p p'
  | ItUnexpanded e, ItUnexpanded e' => entity_eqb e e'
  | ItDocType d, ItDocType d' => doctype_eqb d d'
  | _, _ => false
  end.
Definition bool_eqb (a b : bool) : bool := Bool.eqb a b.
Definition impl_eq (a b : document) : bool :=
  list_eqb item_eqb (doc_children a) (doc_children b) && str_eqb (doc_encoding a) (doc_encoding b)
  && opt_eqb bool_eqb (doc_standalone a) (doc_standalone b) && opt_eqb str_eqb (doc_version a) (doc_version b).

(** ** parse, then build: xml_dom::XmlDocument::from_raw *)
Inductive outcome (A : Type) :=
| OOk (a : A)
| OParseErr                               (* nom error *)
| OInfoErr (e : ierror)                   (* XmlDocument::new returned Err *)
| OPanic (site : panic_site)
| OModel.                                 (* POof / PBadTree / IOof: artefacts of the model, excluded by theorems *)
Arguments OOk {A} a.
Arguments OParseErr {A}.
Arguments OInfoErr {A} e.
Arguments OPanic {A} site.
Arguments OModel {A}.

Definition from_raw_gen (pinned : bool) (s : str) : outcome (str * document) :=
  match parse_document s with
  | POk (d, rest) =>
    match build_document_gen pinned d with
    | IOk x => OOk (rest, x)
    | IErr e => OInfoErr e
    | IPanic p => OPanic p
    | IOof => OModel
    end
  | PFail => OParseErr
  | PBadTree | POof => OModel
  end.
Definition from_raw : str -> outcome (str * document) := from_raw_gen false.
Definition from_raw_pinned : str -> outcome (str * document) := from_raw_gen true.
