(** * What may follow an expression, and how expressions start (C08).

    [follow n k]: the continuation [k] cannot continue an expression parsed at level [n] of the
    precedence ladder (after optional white space it starts with no operator of level >= n, no
    [/] and no predicate); [lex_follow a k]: [k] cannot extend the last token of [a].
    [first_ok]: every spelling starts with a character that is not white space, not [=], and
    for expressions above the unary level not [-].  These are the side conditions under which
    the PEG of xpath/src/expr/mod.rs stops exactly at the end of a spelled expression. *)
From Coq Require Import List NArith Arith Lia Bool.
From XmlRs Require Import Base.CPred Spec.XmlChars Spec.XPathSyntax Model.Peg
  Gen.GrammarXPathGen Proofs.XPathParseBase Proofs.XPathParseLex.
Import ListNotations.
Local Open Scope N_scope.

(** ** character facts, by the verified interval check of CPred *)
Lemma ws_not_namechar c : is_ws c = true -> eval spec_NameChar c = false.
Proof.
  intros H. assert (E : forall c, eval (And spec_NameChar spec_S) c = eval (InR []) c)
    by (apply equiv_sound; vm_compute; reflexivity).
  specialize (E c). cbn [eval existsb] in E. unfold is_ws in H. rewrite H, andb_true_r in E. exact E.
Qed.

Lemma p1_not_ws c : P1 c = true -> is_ws c = false.
Proof.
  intros H. destruct (is_ws c) eqn:E; [|reflexivity]. apply ws_not_namechar in E.
  apply P1_nc in H. unfold ncname_char in H. rewrite E in H. discriminate.
Qed.

Lemma namechar_punct c : In c [32;9;13;10;33;34;36;39;40;41;42;43;44;47;60;61;62;64;91;93;124] ->
  eval spec_NameChar c = false.
Proof. cbn [In]. intros H. repeat (destruct H as [<-|H]; [vm_compute; reflexivity|]). destruct H. Qed.

Lemma p1_not_digit_dot c : P1 c = true -> XPathSyntax.is_digit c = false /\ c <> 46 /\ c <> 45.
Proof.
  intros H.
  assert (E : forall c, eval (And spec_NameStartChar (InR [(48,57);(46,46);(45,45)])) c = eval (InR []) c)
    by (apply equiv_sound; vm_compute; reflexivity).
  specialize (E c). cbn [eval existsb] in E. unfold P1 in H. apply andb_true_iff in H. destruct H as [H _].
  rewrite H in E. cbn [andb] in E. unfold in_range in E. cbn [fst snd] in E.
  rewrite !orb_false_r in E. apply orb_false_iff in E. destruct E as [E1 E2].
  apply orb_false_iff in E2. destruct E2 as [E2 E3].
  repeat split.
  - unfold XPathSyntax.is_digit. destruct (N.leb_spec 48 c), (N.leb_spec c 57), (N.ltb_spec c (57 + 1)); cbn in *; try reflexivity; try discriminate; lia.
  - intros ->. vm_compute in E2. discriminate.
  - intros ->. vm_compute in E3. discriminate.
Qed.

(** ** continuations *)
Definition op_stop (n : nat) (k : str) : Prop :=
  forall o, (n <= lvl o)%nat -> prefix (binop_text o) (drop_ws k) = None.

Definition path_stop (k : str) : Prop :=
  prefix [47] (drop_ws k) = None /\ prefix [91] (drop_ws k) = None.

Definition follow (n : nat) (k : str) : Prop := op_stop n k /\ path_stop k.

Lemma follow_mono n m k : (n <= m)%nat -> follow n k -> follow m k.
Proof. intros Hle [Ho Hp]. split; [|exact Hp]. intros o Ho'. apply Ho. lia. Qed.

Lemma follow_nil n : follow n [].
Proof. split; [intros o _; destruct o; reflexivity|split; reflexivity]. Qed.

(** the last token of [a] is a number: its text *)
Fixpoint last_num (a : xexpr) : option str :=
  match a with
  | XBin _ _ b => last_num b
  | XNeg a => last_num a
  | XNum s => Some s
  | _ => None
  end.

(** the last token of [a] is the abbreviated step [.] *)
Definition step_is_dot (s : xstep) : bool := match s with XDot => true | _ => false end.
Fixpoint ends_dot (a : xexpr) : bool :=
  match a with
  | XBin _ _ b => ends_dot b
  | XNeg a => ends_dot a
  | XPath _ first rest => step_is_dot (last_step first rest)
  | _ => false
  end.

(** characters with which a step may start *)
Definition step_start (c : N) : bool := P1 c || (c =? 42) || (c =? 64) || (c =? 46).

Definition lex_follow (a : xexpr) (k : str) : Prop :=
  (ends_name a = true ->
     name_stop k /\ prefix [40] (drop_ws k) = None /\ prefix [58] (drop_ws k) = None)
  /\ (forall s, last_num a = Some s -> num_stop s k)
  /\ (ends_dot a = true -> stops (fun c => XPathSyntax.is_digit c || (c =? 46)) k)
  /\ (ends_root a = true -> stops step_start (drop_ws k)).

Lemma lex_follow_nil a : lex_follow a [].
Proof. repeat split; intros; cbn; auto. Qed.

(** continuations that start (after white space) with a closing token or an operator *)
Definition punct_hd (k : str) : Prop :=
  match k with
  | [] => True
  | c :: _ => In c [32;9;13;10;33;40;41;42;43;44;47;60;61;62;91;93;124]
  end.

Lemma punct_name_stop k : punct_hd k -> name_stop k.
Proof.
  destruct k as [|c k]; [trivial|]. cbn [punct_hd name_stop stops]. intros H. apply namechar_punct.
  cbn [In] in *. intuition.
Qed.

Lemma name_stop_num_stop s k : name_stop k -> num_stop s k.
Proof.
  destruct k as [|c k]; [split; [exact I|reflexivity]|]. unfold name_stop. cbn [stops]. intros H. split.
  - cbn [stops]. assert (E : forall c, eval (And (InR [(48,57)]) (Not spec_NameChar)) c = eval (InR []) c)
      by (apply equiv_sound; vm_compute; reflexivity).
    specialize (E c). cbn [eval existsb] in E. rewrite H in E. cbn [negb] in E. rewrite andb_true_r, orb_false_r in E.
    rewrite <- (eval_dig c). unfold DIG. cbn [eval existsb]. rewrite orb_false_r. exact E.
  - intros _. cbn [prefix]. destruct (N.eqb_spec 46 c) as [<-|]; [|reflexivity]. vm_compute in H. discriminate.
Qed.

(** ** how spellings start *)
Definition first_ok (a : xexpr) (s : str) : Prop :=
  match s with
  | [] => False
  | c :: _ => is_ws c = false /\ c <> 61 /\ ((7 <= level a)%nat -> c <> 45)
  end.

Lemma ws_cases c : is_ws c = true -> c = 32 \/ c = 9 \/ c = 13 \/ c = 10.
Proof.
  unfold is_ws. cbn [eval spec_S existsb]. unfold in_range. cbn [fst snd]. rewrite !orb_false_r. intros H.
  repeat (apply orb_true_iff in H; destruct H as [H|H]);
  apply andb_true_iff in H; destruct H as [H1 H2]; apply N.leb_le in H1; apply N.ltb_lt in H2; lia.
Qed.
