"""C07 -- node-sets are duplicate-free, document-ordered and obey set algebra."""
import json, time
from . import lib
from . import xpath_common as X

def law_items(rng, n, weights=None):
    """cases made of node-set expressions A, B, C and the law probes built from them"""
    g = X.Gen(rng, weights)
    out = []
    docs = []
    for k in range(n):
        if not docs or rng.random() < 0.4:
            docs.append(X.gen_doc(rng))
        d = rng.choice(docs[-3:])
        depth = rng.choice([1, 2, 2, 3])
        A, B, C = g.nodeset(depth), g.nodeset(depth), g.nodeset(max(1, depth - 1))
        if rng.random() < 0.35:           # reverse axes, filters
            A = ('path', '//', [('/', ('step', None, rng.choice(X.NAMES + ['*']), [])), ('/', ('step', rng.choice(sorted(X.REVERSE_AXES)), rng.choice(['*', 'node()']), []))])
        kk = rng.choice(['1', '2', '3', 'last()'])
        build = probes(kk)
        out.append({'doc': d, 'exprs': build([A, B, C]), 'trees': [A, B, C], 'build': build, 'merged': rng.random() < 0.7,
                    'binds': [('p', 'urn:p'), ('q', 'urn:q')], 'k': kk})
    return out

def probes(kk):
    def build(t):
        A, B, C = t
        return [A, B, C,
                ('union', A, B), ('union', B, A), ('union', A, A),
                ('union', ('paren', ('union', A, B)), C), ('union', A, ('paren', ('union', B, C))),
                ('filter', A, [('num', kk) if kk != 'last()' else ('call', 'last', [])], None),
                ('union', ('union', C, B), A)]
    return build

def sorted_unique(nodes):
    """None when strictly increasing table indices; else what is wrong"""
    if any(not isinstance(x, int) for x in nodes):
        return 'node without identity (order key 0) in the result'
    for a, b in zip(nodes, nodes[1:]):
        if a == b:
            return 'duplicate node %d' % a
        if a > b:
            return 'node %d listed before node %d' % (a, b)
    return None

def check_laws(vals, k):
    """vals: the ten result values of one law case (strings); -> list of (law, detail)"""
    ns = [X.nodes_of(v) for v in vals]
    A, B, C, AB, BA, AA, AB_C, A_BC, Ak, CBA = ns
    bad = []
    if A is None or B is None:
        return bad
    if AB is not None and BA is not None and AB != BA:
        bad.append(('union_comm', 'A|B = %s but B|A = %s' % (vals[3], vals[4])))
    if AA is not None and len(AA) > len(A):
        # a union that is LARGER than its operand: finding D19 (key-0 nodes collapse or sort first) never explains that
        bad.append(('union_grows', 'A|A = %s has more nodes than A = %s' % (vals[5], vals[0])))
    if AA is not None and AA != A:
        bad.append(('union_idem', 'A|A = %s but A = %s' % (vals[5], vals[0])))
    if AB is not None and len(AB) > len(A) + len(B):
        bad.append(('union_count', 'count(A|B) = %d > %d + %d' % (len(AB), len(A), len(B))))
    if AB is not None and set(map(str, AB)) != set(map(str, A)) | set(map(str, B)):
        bad.append(('union_elements', 'A|B = %s is not the union of %s and %s' % (vals[3], vals[0], vals[1])))
    if C is not None and AB_C is not None and A_BC is not None:
        if AB_C != A_BC:
            bad.append(('union_assoc', '(A|B)|C = %s but A|(B|C) = %s' % (vals[6], vals[7])))
        if CBA is not None and CBA != AB_C:
            bad.append(('union_perm', 'C|B|A = %s but (A|B)|C = %s' % (vals[9], vals[6])))
    if Ak is not None:
        idx = len(A) if k == 'last()' else int(k)
        want = [A[idx - 1]] if 1 <= idx <= len(A) else []
        if Ak != want:
            bad.append(('filter_position', '(A)[%s] = %s but A = %s' % (k, vals[8], vals[0])))
    return bad

def check(run):
    t0 = time.time()
    run.trusted = ['Coq 8.16.1 kernel + VM', 'Model/XPathEval.v, XDoc.v (hand-written, tied by the xpath correspondence)',
                   'harness/src/domains/xpath.rs (XDoc dump = independent pre-order walk), ocaml/domains/xpath/xpath.ml',
                   'extraction (ExtrOcamlBasic only)']
    proved, _ = lib.proof_step(run, 'C07', [])
    okr, mok, _ = lib.build_binaries(run, model_areas=['xpath'])
    if not (okr and mok.get('xpath')):
        return run.finish(level='proof', rule='(binaries missing)')
    quick = run.tier == 'quick'
    n_gen, n_law = (500, 350) if quick else (6000, 5000)
    items = X.generated_cases(run.seed, n_gen, run.tier) + law_items(run.rng, n_law)
    items += X.corpus_items('C07')
    res, okm = X.evaluate(items)
    if not okm:
        run.tie_breaks.append('model driver failed on some case')
    inv_ok = 0
    failing = []
    for it, r in zip(items, res):
        X.account(run, it, r)
        if r['impl'] is None or not r['dump'].get('D'):
            continue
        if r['model'] and r['model'].get('I', '00')[1] == '1':
            inv_ok += 1
        d = X.compare_model(r)
        if d:
            run.tie_breaks.append('model/implementation: ' + d + ' | doc ' + r['case']['doc'][:200])
        if r['impl'].get('hang'):
            failing.append((it, r, 'hang', 'evaluation does not terminate'))
            continue
        vals = [v[0] for v in r['impl']['R']]
        # every node-set result: sorted in document order, no duplicates (independent pre-order ranks)
        for e, v in zip(r['case']['exprs'], vals):
            ns = X.nodes_of(v)
            if ns is None:
                continue
            run.evaluations += 1
            if len(ns) > 1:
                run.nontrivial.add((r['case']['doc'], e))
            w = sorted_unique(ns)
            if w:
                failing.append((it, r, 'canonical', '%s => %s: %s' % (e, v, w)))
                break
        if 'k' in it and len(vals) == 10:
            for law, detail in check_laws(vals, it['k']):
                failing.append((it, r, law, detail))
                break
            run.count('law-cases')
    run.extra['documents_satisfying_DocInv'] = inv_ok
    X.report_failures(run, 'C07', failing, oracle=c07_oracle)
    run.extra['wall_generate_evaluate_s'] = round(time.time() - t0, 1)
    # node-sets on EDITED documents (shared dom campaign): document order and no duplicates must also
    # hold after any edit history, with no other call between the edit and the query
    try:
        from . import domlib as D
        for g in D.query_findings(run, ('query-order',)):
            run.failing_inputs.append({'property': 'C07', 'class': 'edited-document-order', 'what': g['what'], 'docs': g['docs'], 'ops': g['ops'], 'view': g['view'], 'clause': g['clause']})
    except Exception as ex:
        run.notes.append('edited-document stream not run: %r' % (ex,))

    return run.finish(level='proof',
        rule='cases = (document, expression) with a node-set value; non-trivial = distinct (document, expression) whose result has >= 2 nodes; law cases = triples A,B,C with 10 probes each',
        assumptions=['the XDoc dump of the harness is the document the evaluator sees (every field is an observation through the public dom API)',
                     'table index = rank in an independent pre-order walk (harness Table::add)'])

def c07_oracle(case, out, item):
    """re-evaluates the C07 oracle on one concrete case; -> failure class or None (used by the shrinker)"""
    if out.get('hang'):
        return 'hang'
    vals = [v[0] for v in out['R']]
    for v in vals:
        ns = X.nodes_of(v)
        if ns is not None and sorted_unique(ns):
            return 'canonical'
    if item and 'k' in item and len(vals) == 10:
        bad = check_laws(vals, item['k'])
        if bad:
            return bad[0][0]
    return None

def replay(path):
    return X.replay(path)
