(** * C03 -- parsing and printing are total: no panic, abort, hang or blow-up on any input.

    Full statement (DESIGN 5.3), on [pipeline s := parse; build; display; pretty; re-parse]:

      parser_terminates    : forall s, run G_xml G_xml_R nt_document s <> Oof
      pipeline_no_panic    : forall s p, pipeline s <> OPanic p
      expansion_terminates : forall tbl name, expand tbl name <> IOof          (every table)
      cost_polynomial      : forall s, steps (pipeline s) <= c * (length s + 1) ^ k
      bounded stack        : native recursion depth bounded independently of the input

    PROVED here, for every input: the first three (the third even without the [wf_table]
    hypothesis of the design, thanks to repair ed2c470; the conditional form for the code before
    the repair and its divergence without the hypothesis are [expansion_terminates_pinned] and
    [expansion_diverges_pinned]).  [pipeline_no_panic] is a theorem about the model of the
    REPAIRED code (bd92e3d); the model of the code before it panics:
    [pipeline_no_panic_refuted_pinned] (D07, also reproduced on the real crates by checks/C03.py).

    The cost bound and the bounded stack do NOT hold; both are refuted.
    [cost_refuted] (D10): with [cost] = the number of non-terminal calls of the PEG interpreter
    (Proofs/PegCost.v: defined by the recursion of [denote], reading every sub-result from
    [denote]), parsing the well-formed document
    `<!DOCTYPE a [<!ELEMENT a ((..(a|b)|b)..|b)>]><a/>` with k+1 nested choice groups, 4k+37
    characters, costs at least 2^(k+1) calls at the fuel [run] uses: the production [cp] tries the
    sequence alternative first, parses the inner group, fails at `|`, and the choice alternative
    parses it again.  checks/C03.py measures the same doubling on the real crates (finding D10).
    [depth_unbounded] (D08): recursion depth = nesting depth, for every depth; the native stack
    the Rust recursion needs is outside the model, the abort is observed by checks/C03.py on the
    real code (element nesting >= 20000 overflows a 64 MB stack).  Both stay findings.
    The tie of the panic-site inventory (T4) is [panic_sites_classified]. *)
From Coq Require Import List NArith Arith.
From XmlRs Require Import Base.CPred Model.Peg Gen.GrammarXmlGen Model.ParseActions Model.Info Model.Display
     Model.PanicSites Proofs.GrammarTermination Proofs.PipelineTotal Proofs.Expansion Proofs.DisplayElem Proofs.DisplayRun
     Proofs.PegCost Proofs.CostXml.
Import ListNotations.

Theorem parser_terminates : forall s, run G_xml G_xml_R nt_document s <> Oof.
Proof. exact (xml_grammar_terminates nt_document). Qed.

Theorem parse_document_terminates : forall s, parse_document s <> POof.
Proof.
  intros s. unfold parse_document, parse_with. pose proof (parser_terminates s) as H.
  destruct (run G_xml G_xml_R nt_document s) as [[t r]| |]; [destruct (eval_tree t); discriminate|discriminate|congruence].
Qed.

Theorem pipeline_no_panic : forall s p, pipeline s <> OPanic p.
Proof. exact pipeline_no_panic_proof. Qed.

(** the code before bd92e3d: `<!DOCTYPE a [<!ENTITY % p "x">]><a/>` and `<!DOCTYPE a [%p;]><a/>` *)
Definition d07_decl : str :=
  [60;33;68;79;67;84;89;80;69;32;97;32;91;60;33;69;78;84;73;84;89;32;37;32;112;32;34;120;34;62;93;62;60;97;47;62].
Definition d07_ref : str := [60;33;68;79;67;84;89;80;69;32;97;32;91;37;112;59;93;62;60;97;47;62].

Theorem pipeline_no_panic_refuted_pinned :
  pipeline_pinned d07_decl = OPanic PsParameterEntityDecl /\ pipeline_pinned d07_ref = OPanic PsParameterEntityRef.
Proof. split; vm_compute; reflexivity. Qed.

(** ... which the repaired code reports as errors *)
Example pipeline_d07_repaired :
  pipeline d07_decl = OInfoErr (InvalidData [37;32;112]) /\ pipeline d07_ref = OInfoErr (InvalidData [37;112;59]).
Proof. split; vm_compute; reflexivity. Qed.

Theorem expansion_terminates : forall tbl name, expand tbl name <> IOof.
Proof. exact expand_total. Qed.

Theorem expansion_no_panic : forall tbl name p, expand tbl name <> IPanic p.
Proof. exact expand_no_panic. Qed.

Theorem expansion_terminates_pinned : forall tbl, wf_table tbl ->
  forall name, exists fuel, forall fuel', (fuel <= fuel')%nat -> expand_pinned fuel' tbl name <> IOof.
Proof. exact expand_pinned_terminates. Qed.

Theorem expansion_diverges_pinned : ~ wf_table self_ref_table /\ forall fuel, expand_pinned fuel self_ref_table [101] = IOof.
Proof. split; [exact self_ref_not_wf|exact expand_pinned_diverges]. Qed.

(** the hypotheses are satisfiable by non-trivial values *)
Example wf_table_nontrivial :
  wf_table [Entity [101] (Some [XvText [120]; XvEntity [102]]) None None None;
            Entity [102] (Some [XvText [121]]) None None None].
Proof. exact wf_table_example. Qed.

(** D08 at the level of the model: the recursion depth of the pipeline is not bounded by anything
    but the input -- for every n the parser accepts a document whose infoset (built by the
    recursive XmlElement::node, printed by the recursive Display) nests n deep.  The native stack
    the Rust recursion needs is outside the model; checks/C03.py observes the abort on the real
    code (finding D08). *)
Theorem depth_unbounded : forall n, exists s e i,
  parse_element s = POk (e, []) /\ build_element [] false e = IOk i /\ (n <= item_depth i)%nat.
Proof. exact depth_unbounded_proof. Qed.

(** D10 at the level of the model: [cost_polynomial] is false.  The documents are well formed
    (accepted completely: [nested_doc_accepted] for k = 3) and of length 4k + 37 *)
Theorem cost_refuted : forall k,
  length (nested_doc k) = (4 * k + 37)%nat
  /\ (2 ^ S k <= cost G_xml (fuel_bound G_xml_R (nested_doc k)) (NT nt_document) (nested_doc k))%nat.
Proof. intros k. split; [apply nested_doc_length|apply run_cost_exponential]. Qed.

(** hence the bound [cost_polynomial] of the design has no instance *)
Theorem cost_not_polynomial : forall c d, exists s,
  (c * (length s + 1) ^ d < cost G_xml (fuel_bound G_xml_R s) (NT nt_document) s)%nat.
Proof. exact run_cost_not_polynomial. Qed.

Example nested_doc_accepted : exists d, pipeline_parse (nested_doc 3) = OOk ([], d).
Proof. eexists. vm_compute. reflexivity. Qed.

(** T4: the inventory of panic sites regenerated from the sources is the hand-classified one *)
Theorem panic_sites_classified : sites_match = true.
Proof. vm_compute. reflexivity. Qed.

Print Assumptions parser_terminates.
Print Assumptions pipeline_no_panic.
Print Assumptions expansion_terminates.
Print Assumptions expansion_terminates_pinned.
Print Assumptions expansion_diverges_pinned.
Print Assumptions depth_unbounded.
Print Assumptions cost_refuted.
Print Assumptions cost_not_polynomial.
