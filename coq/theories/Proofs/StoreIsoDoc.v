(** * Two stores that denote the same document are similar, hence show the same tree

    [doc_of_store s1 = doc_of_store s2] (Model/StoreDoc.v) for two stores with the tree invariant
    and the lexical invariant [Lex15]: then the roots are [simf]-similar to any depth
    (Proofs/StoreIsoSim.v), because every child of the document / of an element and every
    attribute and value item denotes exactly ONE item of the infoset model, whose constructor
    fixes the kind and whose fields are the names and data the evaluator's table reads.  One
    more clause is needed for processing instructions: a PI without content holds no data
    ([PiFlagOk]; the printer and the infoset do not see the data of such an item, the table does).

    With Proofs/StoreIso.v: [same_doc_same_tree]. *)
From Coq Require Import List NArith Bool Lia.
From XmlRs Require Import Base.CPred Model.Peg Model.ParseActions Model.Info Model.Display.
From XmlRs Require Import Model.XDoc Proofs.XPathTreeOnly.
From XmlRs Require Import Proofs.StoreDocLex.
From XmlRs Require Import Model.Store Model.StoreView Model.PrintableCheck Model.DomOps Model.StoreDoc.
From XmlRs Require Import Proofs.DomBase Proofs.DomTree Proofs.DomAnc Proofs.DomOrder Proofs.DomPrintable
  Proofs.StoreDocInv Proofs.StoreDocShow Proofs.StoreDocWf Proofs.StoreDocReach Proofs.StoreDocPiFlag Proofs.StoreIso Proofs.StoreIsoSim.
Import ListNotations.
Open Scope N_scope.

Lemma flat_map_single_eq {A B C} (g1 : A -> list C) (g2 : B -> list C) : forall l1 l2,
  (forall a, In a l1 -> exists c, g1 a = [c]) -> (forall b, In b l2 -> exists c, g2 b = [c]) ->
  flat_map g1 l1 = flat_map g2 l2 -> Forall2 (fun a b => g1 a = g2 b) l1 l2.
Proof.
  induction l1 as [|a l1 IH]; intros l2 H1 H2 E.
  - destruct l2 as [|b l2]; [constructor|]. destruct (H2 b (or_introl eq_refl)) as [c Ec]. cbn [flat_map] in E. rewrite Ec in E. discriminate.
  - destruct (H1 a (or_introl eq_refl)) as [c Ec]. destruct l2 as [|b l2]; [cbn [flat_map] in E; rewrite Ec in E; discriminate|].
    destruct (H2 b (or_introl eq_refl)) as [c' Ec']. cbn [flat_map] in E. rewrite Ec, Ec' in E. inversion E; subst c'.
    constructor; [congruence|]. apply IH; [intros x Hx; apply H1; right; exact Hx | intros x Hx; apply H2; right; exact Hx | assumption].
Qed.

Lemma Forall2_impl_in {A B} (P Q : A -> B -> Prop) l1 l2 :
  (forall a b, In a l1 -> In b l2 -> P a b -> Q a b) -> Forall2 P l1 l2 -> Forall2 Q l1 l2.
Proof.
  intros H F. induction F as [|a b l1 l2 Hab _ IH]; constructor.
  - apply H; [left; reflexivity | left; reflexivity | exact Hab].
  - apply IH. intros x y Hx Hy. apply H; right; assumption.
Qed.

(** the lists of a leaf are empty *)
Lemma no_children s n it : TreeInv s -> get s n = Some it -> container (ikind it) = false -> ichildren it = [].
Proof.
  intros T G K. destruct (ichildren it) as [|c cs] eqn:E; [reflexivity|]. exfalso.
  assert (Hin : In c (ichildren it)) by (rewrite E; left; reflexivity).
  destruct (lists_live_child s T n c) as [cit Gc]; [exists it; split; [exact G | left; exact Hin]|].
  pose proof (ti_child_kind s T n it c cit G Hin Gc) as Hok. apply child_ok_container in Hok. congruence.
Qed.

Lemma no_attrs s n it : TreeInv s -> get s n = Some it -> ikind it <> KEl -> iattrs it = [].
Proof.
  intros T G K. destruct (iattrs it) as [|c cs] eqn:E; [reflexivity|]. exfalso.
  assert (Hin : In c (iattrs it)) by (rewrite E; left; reflexivity).
  destruct (lists_live_child s T n c) as [cit Gc]; [exists it; split; [exact G | right; exact Hin]|].
  destruct (ti_attr_kind s T n it c cit G Hin Gc) as [Ke _]. contradiction.
Qed.

Section SameDoc.
Variables s1 s2 : store.
Hypothesis T1 : TreeInv s1.
Hypothesis T2 : TreeInv s2.
Hypothesis L1 : Lex15 s1.
Hypothesis L2 : Lex15 s2.
Hypothesis P1 : PiFlagOk s1.
Hypothesis P2 : PiFlagOk s2.
Let h1 := hdr s1.
Let h2 := hdr s2.

(** what is carried along the pairs: the two nodes denote the same attribute / value piece *)
Definition Rden (n1 n2 : id) : Prop :=
  attr_of s1 (ents_of h1) n1 = attr_of s2 (ents_of h2) n2 /\ avalue_of s1 (ents_of h1) n1 = avalue_of s2 (ents_of h2) n2.

Notation sim := (simf s1 s2 Rden).

(** ** value items *)
Lemma value_sim v1 v2 it1 it2 : get s1 v1 = Some it1 -> get s2 v2 = Some it2 ->
  child_ok KAt (ikind it1) = true -> child_ok KAt (ikind it2) = true ->
  avalue_of s1 (ents_of h1) v1 = avalue_of s2 (ents_of h2) v2 -> forall k, sim k v1 v2.
Proof.
  intros G1 G2 K1 K2 E k. destruct k as [|k]; [exact I|]. cbn [simf]. exists it1, it2.
  split; [exact G1|]. split; [exact G2|].
  assert (C1 : ichildren it1 = [] /\ iattrs it1 = []).
  { split; [apply (no_children s1 v1 it1 T1 G1) | apply (no_attrs s1 v1 it1 T1 G1)]; destruct (ikind it1); try discriminate; reflexivity. }
  assert (C2 : ichildren it2 = [] /\ iattrs it2 = []).
  { split; [apply (no_children s2 v2 it2 T2 G2) | apply (no_attrs s2 v2 it2 T2 G2)]; destruct (ikind it2); try discriminate; reflexivity. }
  destruct C1 as [-> ->], C2 as [-> ->]. split; [|split; [|split; constructor]].
  - unfold avalue_of in E. rewrite G1, G2 in E. unfold local_sim.
    destruct (ikind it1), (ikind it2); try discriminate; inversion E; cbn [uses_prefix uses_local uses_data];
      (split; [reflexivity|]); (split; [intros X; try discriminate X|]); (split; intros X; try discriminate X); congruence.
  - split; [|exact E]. unfold attr_of. rewrite G1, G2. destruct (ikind it1), (ikind it2); try discriminate; reflexivity.
Qed.

(** ** attributes *)
Lemma attr_sim a1 a2 it1 it2 : get s1 a1 = Some it1 -> get s2 a2 = Some it2 -> ikind it1 = KAt -> ikind it2 = KAt ->
  attr_of s1 (ents_of h1) a1 = attr_of s2 (ents_of h2) a2 -> forall k, sim k a1 a2.
Proof.
  intros G1 G2 K1 K2 E k. destruct k as [|k]; [exact I|]. cbn [simf]. exists it1, it2.
  split; [exact G1|]. split; [exact G2|].
  pose proof E as E0. unfold attr_of in E. rewrite G1, G2, K1, K2 in E. inversion E as [[El Ep Ev]].
  split; [unfold local_sim; rewrite K1, K2; cbn [uses_prefix uses_local uses_data];
          split; [reflexivity|]; split; [intros _; congruence|]; split; [intros _; congruence | intros X; discriminate X]|].
  split; [split; [exact E0 | unfold avalue_of; rewrite G1, G2, K1, K2; reflexivity]|].
  rewrite (no_attrs s1 a1 it1 T1 G1), (no_attrs s2 a2 it2 T2 G2) by (rewrite ?K1, ?K2; discriminate).
  split; [constructor|].
  assert (V1 : forall v, In v (ichildren it1) -> exists vit, get s1 v = Some vit /\ child_ok KAt (ikind vit) = true).
  { intros v Hv. destruct (child_live s1 T1 a1 it1 v G1 Hv) as [vit [Hg Hk]]. rewrite K1 in Hk. eauto. }
  assert (V2 : forall v, In v (ichildren it2) -> exists vit, get s2 v = Some vit /\ child_ok KAt (ikind vit) = true).
  { intros v Hv. destruct (child_live s2 T2 a2 it2 v G2 Hv) as [vit [Hg Hk]]. rewrite K2 in Hk. eauto. }
  assert (F : Forall2 (fun x y => avalue_of s1 (ents_of h1) x = avalue_of s2 (ents_of h2) y) (ichildren it1) (ichildren it2)).
  { apply flat_map_single_eq; [| |exact Ev].
    - intros v Hv. destruct (V1 v Hv) as [vit [Hg Hk]]. unfold avalue_of. rewrite Hg. destruct (ikind vit); try discriminate; eauto.
    - intros v Hv. destruct (V2 v Hv) as [vit [Hg Hk]]. unfold avalue_of. rewrite Hg. destruct (ikind vit); try discriminate; eauto. }
  clear Ev E. induction F as [|x y l l' Exy _ IH]; constructor.
  - destruct (V1 x (or_introl eq_refl)) as [xi [Gx Kx]]. destruct (V2 y (or_introl eq_refl)) as [yi [Gy Ky]].
    eapply value_sim; eassumption.
  - apply IH; [intros v Hv; apply V1; right; exact Hv | intros v Hv; apply V2; right; exact Hv].
Qed.

(** ** nodes: children of the document and of elements *)
Lemma node_single s h f n it : get s n = Some it -> (0 < f)%nat -> item_fuel f s h n <> [] -> exists i, item_fuel f s h n = [i].
Proof.
  intros G Hf NE. destruct f as [|f]; [lia|]. cbn [item_fuel] in *. rewrite G in *.
  destruct (ikind it); try (exfalso; apply NE; reflexivity); eauto.
  destruct (h_doctype h); [eauto | exfalso; apply NE; reflexivity].
Qed.

Lemma node_sim : forall k n1 n2 it1 it2 f1 f2, get s1 n1 = Some it1 -> get s2 n2 = Some it2 ->
  deep s1 n1 f1 -> deep s2 n2 f2 -> (0 < f1)%nat -> (0 < f2)%nat ->
  item_fuel f1 s1 h1 n1 = item_fuel f2 s2 h2 n2 -> item_fuel f1 s1 h1 n1 <> [] -> sim k n1 n2.
Proof.
  induction k as [|k IH]; intros n1 n2 it1 it2 f1 f2 G1 G2 D1 D2 H1 H2 E NE; [exact I|].
  destruct f1 as [|f1]; [lia|]. destruct f2 as [|f2]; [lia|].
  cbn [simf]. exists it1, it2. split; [exact G1|]. split; [exact G2|].
  cbn [item_fuel] in E, NE. rewrite G1 in E, NE. rewrite G2 in E.
  destruct (ikind it1) eqn:K1; try (exfalso; apply NE; reflexivity);
    destruct (ikind it2) eqn:K2; try discriminate E;
    try (destruct (h_doctype h2); discriminate E); try (destruct (h_doctype h1); discriminate E);
    try (exfalso; apply NE; exact E).
  - (* elements *)
    inversion E as [[El Ep Ea Ec]]. clear E NE.
    split; [unfold local_sim; rewrite K1, K2; cbn [uses_prefix uses_local uses_data];
            split; [reflexivity|]; split; [intros _; congruence|]; split; [intros _; congruence | intros X; discriminate X]|].
    split; [unfold Rden, attr_of, avalue_of; rewrite G1, G2, K1, K2; split; reflexivity|].
    split.
    + assert (A1 : forall a, In a (iattrs it1) -> exists ait, get s1 a = Some ait /\ ikind ait = KAt).
      { intros a Ha. destruct (attr_par s1 T1 n1 it1 a G1 Ha) as [ait [Hg _]]. exists ait. split; [exact Hg|].
        apply (ti_attr_kind s1 T1 n1 it1 a ait G1 Ha Hg). }
      assert (A2 : forall a, In a (iattrs it2) -> exists ait, get s2 a = Some ait /\ ikind ait = KAt).
      { intros a Ha. destruct (attr_par s2 T2 n2 it2 a G2 Ha) as [ait [Hg _]]. exists ait. split; [exact Hg|].
        apply (ti_attr_kind s2 T2 n2 it2 a ait G2 Ha Hg). }
      assert (F : Forall2 (fun x y => attr_of s1 (ents_of h1) x = attr_of s2 (ents_of h2) y) (iattrs it1) (iattrs it2)).
      { apply flat_map_single_eq; [| |exact Ea].
        - intros a Ha. destruct (A1 a Ha) as [ait [Hg Hk]]. unfold attr_of. rewrite Hg, Hk. eauto.
        - intros a Ha. destruct (A2 a Ha) as [ait [Hg Hk]]. unfold attr_of. rewrite Hg, Hk. eauto. }
      clear Ea. induction F as [|x y l l' Exy _ IHf]; constructor.
      * destruct (A1 x (or_introl eq_refl)) as [xi [Gx Kx]]. destruct (A2 y (or_introl eq_refl)) as [yi [Gy Ky]].
        eapply attr_sim; eassumption.
      * apply IHf; [intros v Hv; apply A1; right; exact Hv | intros v Hv; apply A2; right; exact Hv].
    + assert (C1 : forall c, In c (ichildren it1) -> exists cit, get s1 c = Some cit /\ child_ok KEl (ikind cit) = true /\ deep s1 c f1 /\ (0 < f1)%nat).
      { intros c Hc. destruct (child_live s1 T1 n1 it1 c G1 Hc) as [cit [Hg Hk]]. rewrite K1 in Hk.
        destruct (deep_child s1 n1 c f1 D1 (child_par s1 T1 n1 it1 c G1 Hc)) as [Dc Hp]. eauto. }
      assert (C2 : forall c, In c (ichildren it2) -> exists cit, get s2 c = Some cit /\ child_ok KEl (ikind cit) = true /\ deep s2 c f2 /\ (0 < f2)%nat).
      { intros c Hc. destruct (child_live s2 T2 n2 it2 c G2 Hc) as [cit [Hg Hk]]. rewrite K2 in Hk.
        destruct (deep_child s2 n2 c f2 D2 (child_par s2 T2 n2 it2 c G2 Hc)) as [Dc Hp]. eauto. }
      assert (F : Forall2 (fun x y => item_fuel f1 s1 h1 x = item_fuel f2 s2 h2 y) (ichildren it1) (ichildren it2)).
      { apply flat_map_single_eq; [| |exact Ec].
        - intros c Hc. destruct (C1 c Hc) as [cit [Hg [Hk [_ Hp]]]]. destruct f1 as [|f1']; [lia|]. eapply item_single; eassumption.
        - intros c Hc. destruct (C2 c Hc) as [cit [Hg [Hk [_ Hp]]]]. destruct f2 as [|f2']; [lia|]. eapply item_single; eassumption. }
      clear Ec. induction F as [|x y l l' Exy _ IHf]; constructor.
      * destruct (C1 x (or_introl eq_refl)) as [xi [Gx [Kx [Dx Px]]]]. destruct (C2 y (or_introl eq_refl)) as [yi [Gy [Ky [Dy Py]]]].
        apply (IH x y xi yi f1 f2 Gx Gy Dx Dy Px Py Exy).
        destruct f1 as [|f1']; [lia|]. destruct (item_single s1 f1' x xi Gx Kx) as [i Ei]. fold h1 in Ei. rewrite Ei. discriminate.
      * apply IHf; [intros v Hv; apply C1; right; exact Hv | intros v Hv; apply C2; right; exact Hv].
  - (* text *) inversion E. rewrite (no_children s1 n1 it1 T1 G1), (no_children s2 n2 it2 T2 G2), (no_attrs s1 n1 it1 T1 G1), (no_attrs s2 n2 it2 T2 G2)
      by (rewrite ?K1, ?K2; (reflexivity || discriminate)).
    split; [unfold local_sim; rewrite K1, K2; cbn [uses_prefix uses_local uses_data]; repeat split; try (intros X; discriminate X); intros _; congruence|].
    split; [unfold Rden, attr_of, avalue_of; rewrite G1, G2, K1, K2; split; congruence|].
    split; constructor.
  - (* CDATA *) inversion E. rewrite (no_children s1 n1 it1 T1 G1), (no_children s2 n2 it2 T2 G2), (no_attrs s1 n1 it1 T1 G1), (no_attrs s2 n2 it2 T2 G2)
      by (rewrite ?K1, ?K2; (reflexivity || discriminate)).
    split; [unfold local_sim; rewrite K1, K2; cbn [uses_prefix uses_local uses_data]; repeat split; try (intros X; discriminate X); intros _; congruence|].
    split; [unfold Rden, attr_of, avalue_of; rewrite G1, G2, K1, K2; split; congruence|].
    split; constructor.
  - (* character reference *) inversion E. rewrite (no_children s1 n1 it1 T1 G1), (no_children s2 n2 it2 T2 G2), (no_attrs s1 n1 it1 T1 G1), (no_attrs s2 n2 it2 T2 G2)
      by (rewrite ?K1, ?K2; (reflexivity || discriminate)).
    split; [unfold local_sim; rewrite K1, K2; cbn [uses_prefix uses_local uses_data]; repeat split; try (intros X; discriminate X); intros _; congruence|].
    split; [unfold Rden, attr_of, avalue_of; rewrite G1, G2, K1, K2; split; congruence|].
    split; constructor.
  - (* entity reference *) rewrite (no_children s1 n1 it1 T1 G1), (no_children s2 n2 it2 T2 G2), (no_attrs s1 n1 it1 T1 G1), (no_attrs s2 n2 it2 T2 G2)
      by (rewrite ?K1, ?K2; (reflexivity || discriminate)).
    split; [unfold local_sim; rewrite K1, K2; cbn [uses_prefix uses_local uses_data]; repeat split; intros X; discriminate X|].
    split; [unfold Rden, attr_of, avalue_of; rewrite G1, G2, K1, K2; split; try reflexivity; inversion E; congruence|].
    split; constructor.
  - (* PI *) inversion E as [[El Ed]]. rewrite (no_children s1 n1 it1 T1 G1), (no_children s2 n2 it2 T2 G2), (no_attrs s1 n1 it1 T1 G1), (no_attrs s2 n2 it2 T2 G2)
      by (rewrite ?K1, ?K2; (reflexivity || discriminate)).
    split; [|split; [unfold Rden, attr_of, avalue_of; rewrite G1, G2, K1, K2; split; reflexivity | split; constructor]].
    unfold local_sim; rewrite K1, K2; cbn [uses_prefix uses_local uses_data]. split; [reflexivity|]. split; [intros X; discriminate X|].
    split; [intros _; congruence|]. intros _.
    destruct (iflag it1) eqn:Fl1, (iflag it2) eqn:Fl2; try discriminate Ed.
    + inversion Ed. reflexivity.
    + rewrite (P1 n1 it1 G1 K1 Fl1), (P2 n2 it2 G2 K2 Fl2). reflexivity.
  - (* comment *) inversion E. rewrite (no_children s1 n1 it1 T1 G1), (no_children s2 n2 it2 T2 G2), (no_attrs s1 n1 it1 T1 G1), (no_attrs s2 n2 it2 T2 G2)
      by (rewrite ?K1, ?K2; (reflexivity || discriminate)).
    split; [unfold local_sim; rewrite K1, K2; cbn [uses_prefix uses_local uses_data]; repeat split; try (intros X; discriminate X); intros _; congruence|].
    split; [unfold Rden, attr_of, avalue_of; rewrite G1, G2, K1, K2; split; congruence|].
    split; constructor.
  - (* document type *) rewrite (no_children s1 n1 it1 T1 G1), (no_children s2 n2 it2 T2 G2), (no_attrs s1 n1 it1 T1 G1), (no_attrs s2 n2 it2 T2 G2)
      by (rewrite ?K1, ?K2; (reflexivity || discriminate)).
    split; [unfold local_sim; rewrite K1, K2; cbn [uses_prefix uses_local uses_data]; repeat split; intros X; discriminate X|].
    split; [unfold Rden, attr_of, avalue_of; rewrite G1, G2, K1, K2; split; try reflexivity; inversion E; congruence|].
    split; constructor.
Qed.

(** ** the documents *)
Hypothesis E : doc_of_store s1 = doc_of_store s2.

Lemma doc_child_single s (T : TreeInv s) (L : Lex15 s) f rit c : get s (sroot s) = Some rit -> ikind rit = KDoc -> In c (ichildren rit) -> (0 < f)%nat ->
  exists i, item_fuel f s (hdr s) c = [i].
Proof.
  intros Hr Hk Hc Hf. destruct (child_live s T (sroot s) rit c Hr Hc) as [cit [Hg Hok]]. rewrite Hk in Hok.
  destruct f as [|f]; [lia|]. cbn [item_fuel]. rewrite Hg. destruct (ikind cit) eqn:K; try discriminate; eauto.
  pose proof (doctype_child s T rit c cit Hr Hc Hg K) as Hd.
  destruct (hdr_doctype s (lex15_hdr_ok s L) c Hd) as [x [Hx _]]. rewrite Hx. eauto.
Qed.

Theorem same_doc_sim : forall k, sim k (sroot s1) (sroot s2).
Proof.
  intros k. destruct k as [|k]; [exact I|].
  destruct (ti_root s1 T1) as [r1 [Hr1 Hk1]]. destruct (ti_root s2 T2) as [r2 [Hr2 Hk2]].
  cbn [simf]. exists r1, r2. split; [exact Hr1|]. split; [exact Hr2|].
  split; [unfold local_sim; rewrite Hk1, Hk2; cbn [uses_prefix uses_local uses_data]; repeat split; intros X; discriminate X|].
  split; [unfold Rden, attr_of, avalue_of; rewrite Hr1, Hr2, Hk1, Hk2; split; reflexivity|].
  rewrite (no_attrs s1 _ r1 T1 Hr1), (no_attrs s2 _ r2 T2 Hr2) by (rewrite ?Hk1, ?Hk2; discriminate). split; [constructor|].
  assert (Ei : doc_items s1 = doc_items s2) by (unfold doc_of_store in E; inversion E; reflexivity).
  unfold doc_items, children_of in Ei. rewrite Hr1, Hr2 in Ei.
  assert (Hp1 : (0 < N.to_nat (next s1))%nat) by (pose proof (ti_bound s1 T1 _ _ Hr1); lia).
  assert (Hp2 : (0 < N.to_nat (next s2))%nat) by (pose proof (ti_bound s2 T2 _ _ Hr2); lia).
  destruct (N.to_nat (next s1)) as [|f1] eqn:E1; [lia|]. destruct (N.to_nat (next s2)) as [|f2] eqn:E2; [lia|].
  assert (D1 : deep s1 (sroot s1) (S f1)) by (intros d j Hj; rewrite <- E1; eapply ancn_strict; eassumption).
  assert (D2 : deep s2 (sroot s2) (S f2)) by (intros d j Hj; rewrite <- E2; eapply ancn_strict; eassumption).
  assert (C1 : forall c, In c (ichildren r1) -> deep s1 c f1 /\ (0 < f1)%nat)
    by (intros c Hc; apply (deep_child s1 _ c f1 D1 (child_par s1 T1 _ r1 c Hr1 Hc))).
  assert (C2 : forall c, In c (ichildren r2) -> deep s2 c f2 /\ (0 < f2)%nat)
    by (intros c Hc; apply (deep_child s2 _ c f2 D2 (child_par s2 T2 _ r2 c Hr2 Hc))).
  assert (F : Forall2 (fun x y => item_fuel f1 s1 h1 x = item_fuel f2 s2 h2 y) (ichildren r1) (ichildren r2)).
  { apply flat_map_single_eq; [| |exact Ei].
    - intros c Hc. apply (doc_child_single s1 T1 L1 f1 r1 c Hr1 Hk1 Hc). apply (C1 c Hc).
    - intros c Hc. apply (doc_child_single s2 T2 L2 f2 r2 c Hr2 Hk2 Hc). apply (C2 c Hc). }
  clear Ei. eapply Forall2_impl_in; [|exact F]. intros x y Hx Hy Exy. cbn beta in Exy.
  destruct (C1 x Hx) as [Dx Px]. destruct (C2 y Hy) as [Dy Py].
  destruct (child_live s1 T1 _ r1 x Hr1 Hx) as [xi [Gx _]].
  destruct (child_live s2 T2 _ r2 y Hr2 Hy) as [yi [Gy _]].
  apply (node_sim k x y xi yi f1 f2 Gx Gy Dx Dy Px Py Exy).
  destruct (doc_child_single s1 T1 L1 f1 r1 x Hr1 Hk1 Hx Px) as [i Ei]. fold h1 in Ei. rewrite Ei. discriminate.
Qed.

End SameDoc.

(** ** same document, same tree *)

(** string facts that depend only on what the node denotes (the normalised value of an attribute
    is a function of its value pieces and of the entities they refer to, the replacement text of
    an entity reference a function of the entity) *)
Definition FactsBy (fa : list attr -> str) (fr : list avalue -> str) (F : sfacts) (s : store) : Prop :=
  forall n, sf_attr F n = fa (attr_of s (ents_of (hdr s)) n) /\ sf_ref F n = fr (avalue_of s (ents_of (hdr s)) n).

Theorem same_doc_iso s1 s2 :
  TreeInv s1 -> TreeInv s2 -> Lex15 s1 -> Lex15 s2 -> PiFlagOk s1 -> PiFlagOk s2 ->
  doc_of_store s1 = doc_of_store s2 ->
  ren s1 s2 (sroot s1) = sroot s2
  /\ (forall n it1, attached s1 n -> get s1 n = Some it1 -> exists it2, get s2 (ren s1 s2 n) = Some it2 /\ item_sim (ren s1 s2) it1 it2)
  /\ (forall a b, ren s1 s2 a = ren s1 s2 b -> a = b)
  /\ (forall n, attached s1 n -> Rden s1 s2 n (ren s1 s2 n)).
Proof.
  intros T1 T2 L1 L2 P1 P2 E. apply (sim_iso s1 s2 T1 T2 (Rden s1 s2)). apply same_doc_sim; assumption.
Qed.

Theorem same_doc_same_tree F1 F2 merged s1 s2 fa fr :
  TreeInv s1 -> TreeInv s2 -> Lex15 s1 -> Lex15 s2 -> PiFlagOk s1 -> PiFlagOk s2 ->
  doc_of_store s1 = doc_of_store s2 -> FactsBy fa fr F1 s1 -> FactsBy fa fr F2 s2 ->
  same_tree (xdoc_of_store F1 merged s1) (xdoc_of_store F2 merged s2).
Proof.
  intros T1 T2 L1 L2 P1 P2 E B1 B2. destruct (same_doc_iso s1 s2 T1 T2 L1 L2 P1 P2 E) as [I1 [I2 [I3 I4]]].
  apply (iso_same_tree F1 F2 merged s1 s2 (ren s1 s2) T1 T2 I1 I2 I3).
  - intros a A. destruct (I4 a A) as [Ea _]. destruct (B1 a) as [X1 _]. destruct (B2 (ren s1 s2 a)) as [X2 _]. rewrite X1, X2, Ea. reflexivity.
  - intros c A. destruct (I4 c A) as [_ Ev]. destruct (B1 c) as [_ X1]. destruct (B2 (ren s1 s2 c)) as [_ X2]. rewrite X1, X2, Ev. reflexivity.
Qed.

(** the other store has a document element as well *)
Lemma same_doc_element s1 s2 :
  TreeInv s1 -> TreeInv s2 -> Lex15 s1 -> Lex15 s2 -> PiFlagOk s1 -> PiFlagOk s2 ->
  doc_of_store s1 = doc_of_store s2 -> doc_element s1 <> None -> doc_element s2 <> None.
Proof.
  intros T1 T2 L1 L2 P1 P2 E H. destruct (same_doc_iso s1 s2 T1 T2 L1 L2 P1 P2 E) as [I1 [I2 _]].
  destruct (doc_element s1) as [e|] eqn:DE; [|contradiction]. clear H.
  unfold doc_element in DE. apply find_some in DE. destruct DE as [Hin Hk].
  assert (Ar : att s1 (sroot s1)) by (left; reflexivity).
  assert (Ae : att s1 e) by (eapply children_att; eassumption).
  intros X. unfold doc_element in X. rewrite <- I1 in X. rewrite (sim_children_of s1 s2 (ren s1 s2) T1 I2 _ Ar) in X.
  pose proof (find_none _ _ X (ren s1 s2 e) (in_map _ _ _ Hin)) as Y.
  rewrite (sim_has_kind s1 s2 (ren s1 s2) T1 I2 KEl e Ae) in Y. congruence.
Qed.
