(** C06 -- XPath parsing and evaluation are total.

    Parser half: the expression parser, as regenerated from xpath/src/expr/mod.rs and
    nom/src/lib.rs, terminates on every input from every production (no left recursion: the
    certificate emitted by the translator is checked by computation).  The evaluation half
    (no panic, navigation loops bounded) is stated in Properties/C06eval.v over the evaluator
    model.  Cost (time polynomial in the expression length) is not a theorem: a backtracking
    PEG has no such bound in general; it is measured on adversarial families by the check
    (nested parentheses, predicates and function calls), see DESIGN 5.6. *)
From Coq Require Import List NArith Arith.
From XmlRs Require Import Base.CPred Model.Peg Gen.GrammarXPathGen Proofs.PegTermination Proofs.GrammarTermination.

Theorem C06_xpath_parse_terminates :
  forall (n : nat) (s : str), run G_xpath GrammarXPathGen.G_xpath_R n s <> Oof.
Proof. exact xpath_grammar_terminates. Qed.

(** the generic statement it instantiates: any grammar whose certificate checks *)
Theorem C06_certified_grammars_terminate :
  forall (G : list pexpr) (nulls : list bool) (ranks : list nat) (R : nat),
  cert_okb G nulls ranks R = true -> forall (n : nat) (s : str), run G R n s <> Oof.
Proof. exact certified_grammar_terminates. Qed.

Print Assumptions C06_xpath_parse_terminates.
Print Assumptions C06_certified_grammars_terminate.

(** ** evaluation half: re-exported from Properties/C06eval.v (proofs in Proofs/XPath*.v) *)
From XmlRs Require Import Model.XPathAst Model.XDoc Model.XPathEval Proofs.XPathNav Proofs.XPathAstPred Properties.C06eval.

Theorem C06_evaluation_never_panics :
  forall (doc : xdoc) (c : ctx) (e : expr),
    DocWf doc -> expr_total e = true ->
    fst (query doc e c) <> Panic /\ fst (query doc e c) <> OutOfFuel.
Proof. exact C06_query_no_panic. Qed.

Print Assumptions C06_evaluation_never_panics.
