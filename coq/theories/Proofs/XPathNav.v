(** * Navigation over a well-formed document table: the fuel of every navigation loop suffices
    and the axes stay inside the table (C06 navigation half; used by C07 for closure).

    [DocWf doc] is the tree invariant of a table as the harness builds it from a parsed
    document: rows reference rows, children and attributes come after their owner, a parent
    comes before its child, a child's parent is the node that lists it (or the child has no siblings
    at all: the value text of a DTD-default attribute reports the document type as its parent), the ids of the children of
    one node are pairwise distinct (siblings are looked up by id), no observation failed.

    The section is generic in a predicate [G] on nodes that is closed under the navigation
    primitives, so that the same lemmas give "stays inside the table" ([G := valid], C06) and
    "stays among the nodes that are not namespace nodes" ([G := good], C07). *)
From Coq Require Import List NArith Bool Lia PeanoNat.
From XmlRs Require Import Base.CPred Base.NList Base.Float64.
From XmlRs Require Import Spec.XPathCore Model.XPathFuncs.
From XmlRs Require Import Model.XPathAst Model.XDoc Model.XPathScalar Model.XPathEval.
Import ListNotations.
Open Scope N_scope.

Definition valid (doc : xdoc) (i : node) : Prop := (N.to_nat i < length doc)%nat.

Record DocWf (doc : xdoc) : Prop := {
  wf_root : valid doc doc_root;
  wf_children : forall i c, valid doc i -> In c (child_nodes doc i) -> valid doc c /\ i < c;
  wf_attrs : forall i a, valid doc i -> In a (attributes doc i) -> valid doc a;
  wf_nss : forall i, valid doc i -> exists l, n_nss (getd doc i) = Some l /\ Forall (valid doc) l;
  wf_parent : forall i p, valid doc i -> parent_node doc i = Some p -> valid doc p /\ p < i;
  wf_child_parent : forall p c, valid doc p -> In c (child_nodes doc p) ->
      parent_node doc c = Some p \/ (next_sibling doc c = None /\ previous_sibling doc c = None);
  wf_sibling_ids : forall p, valid doc p -> NoDup (map (nid doc) (child_nodes doc p));
  wf_data : forall i, valid doc i -> n_data (getd doc i) <> DataErr;
  wf_name : forall i, valid doc i -> n_name (getd doc i) <> XNameErr;
  wf_docelem : forall i, valid doc i -> kind doc i = KDocument \/ kind doc i = KDocumentFragment ->
               exists e, In e (child_nodes doc i) /\ kind doc e = KElement }.

(** ** generic lemmas on [res] and the list combinators *)
Definition is_ok {A} (r : res A) (P : A -> Prop) : Prop := exists a, r = Ok a /\ P a.

Lemma flat_map_res_ok (G : node -> Prop) (g : node -> res (list node)) (l : list node) :
  (forall x, In x l -> is_ok (g x) (Forall G)) -> is_ok (flat_map_res g l) (Forall G).
Proof.
  induction l as [|x t IH]; intros H; cbn [flat_map_res].
  - exists []. split; [reflexivity|constructor].
  - destruct (H x (or_introl eq_refl)) as [a [Ea Ga]].
    destruct IH as [b [Eb Gb]]; [intros y Hy; apply H; right; exact Hy|].
    rewrite Ea, Eb. cbn [bind]. exists (a ++ b). split; [reflexivity|].
    apply Forall_app; split; assumption.
Qed.

Lemma is_ok_bind {A B} (r : res A) (f : A -> res B) (P : A -> Prop) (Q : B -> Prop) :
  is_ok r P -> (forall a, P a -> is_ok (f a) Q) -> is_ok (bind r f) Q.
Proof. intros [a [E Pa]] H. rewrite E. cbn [bind]. apply H. exact Pa. Qed.

Lemma valid_count (doc : xdoc) (l : list node) :
  NoDup l -> Forall (valid doc) l -> (length l <= length doc)%nat.
Proof.
  intros Hnd Hv.
  assert (Hincl : incl l (map N.of_nat (seq 0 (length doc)))).
  { intros x Hx. rewrite Forall_forall in Hv. specialize (Hv x Hx). unfold valid in Hv.
    apply in_map_iff. exists (N.to_nat x). split; [lia|]. apply in_seq. lia. }
  pose proof (NoDup_incl_length Hnd Hincl) as H. rewrite map_length, seq_length in H. exact H.
Qed.

Lemma NoDup_map_inv' {A B} (f : A -> B) (l : list A) : NoDup (map f l) -> NoDup l.
Proof.
  induction l as [|x t IH]; intros H; [constructor|].
  cbn [map] in H. inversion H as [|y l' Hnin Hnd]; subst. constructor.
  - intros Hin. apply Hnin. apply in_map. exact Hin.
  - apply IH. exact Hnd.
Qed.

Section Nav.
Variable doc : xdoc.
Hypothesis Hwf : DocWf doc.

Variable G : node -> Prop.
Hypothesis G_valid : forall i, G i -> valid doc i.
Hypothesis G_children : forall i c, G i -> In c (child_nodes doc i) -> G c.
Hypothesis G_attrs : forall i a, G i -> In a (attributes doc i) -> G a.
Hypothesis G_parent : forall i p, G i -> parent_node doc i = Some p -> G p.
Hypothesis G_root : G doc_root.

(** ** the parent chain *)
Lemma ancestor_fuel_ok : forall fuel i, G i -> (N.to_nat i < fuel)%nat ->
  is_ok (ancestor_fuel doc fuel i) (Forall G).
Proof.
  induction fuel as [|f IH]; intros i Gi Hlt; [lia|]. cbn [ancestor_fuel]. unfold xp_parent.
  destruct (parent_node doc i) as [p|] eqn:Ep.
  - destruct (wf_parent doc Hwf i p (G_valid i Gi) Ep) as [Vp Hpi].
    assert (Gp : G p) by (eapply G_parent; eauto).
    apply (is_ok_bind _ _ (Forall G)); [apply IH; [exact Gp|lia]|].
    intros l Hl. exists (p :: l). split; [reflexivity|constructor; assumption].
  - exists []. split; [reflexivity|constructor].
Qed.

Lemma ancestor_ok i : G i -> is_ok (ancestor doc i) (Forall G).
Proof.
  intros Gi. apply ancestor_fuel_ok; [exact Gi|]. unfold nav_fuel.
  pose proof (G_valid i Gi) as V. unfold valid in V. lia.
Qed.

Lemma ancestor_and_self_ok i : G i -> is_ok (ancestor_and_self doc i) (Forall G).
Proof.
  intros Gi. unfold ancestor_and_self.
  apply (is_ok_bind _ _ (Forall G)); [apply ancestor_ok; exact Gi|].
  intros l Hl. exists (i :: l). split; [reflexivity|constructor; assumption].
Qed.

Lemma xp_child_incl i c : In c (xp_child doc i) -> In c (child_nodes doc i).
Proof.
  unfold xp_child. destruct (kind doc i); try (intros H; apply filter_In in H; apply H). intros [].
Qed.

(** ** descendants: the depth is bounded because children come after their parent *)
Lemma descendant_fuel_ok : forall fuel i, G i -> (length doc - N.to_nat i < fuel)%nat ->
  is_ok (descendant_fuel doc fuel i) (Forall G).
Proof.
  induction fuel as [|f IH]; intros i Gi Hlt; [lia|]. cbn [descendant_fuel].
  apply flat_map_res_ok. intros c Hc. apply xp_child_incl in Hc.
  destruct (wf_children doc Hwf i c (G_valid i Gi) Hc) as [Vc Hic].
  assert (Gc : G c) by (eapply G_children; eauto).
  apply (is_ok_bind _ _ (Forall G)).
  - apply IH; [exact Gc|]. unfold valid in Vc. lia.
  - intros d Hd. exists (c :: d). split; [reflexivity|constructor; assumption].
Qed.

Lemma descendant_ok i : G i -> is_ok (descendant doc i) (Forall G).
Proof. intros Gi. apply descendant_fuel_ok; [exact Gi|]. unfold nav_fuel. lia. Qed.

Lemma descendant_and_self_ok i : G i -> is_ok (descendant_and_self doc i) (Forall G).
Proof.
  intros Gi. unfold descendant_and_self.
  apply (is_ok_bind _ _ (Forall G)); [apply descendant_ok; exact Gi|].
  intros l Hl. exists (i :: l). split; [reflexivity|constructor; assumption].
Qed.

Lemma descendant_and_self_all_ok l :
  Forall G l -> is_ok (flat_map_res (descendant_and_self doc) l) (Forall G).
Proof.
  intros H. apply flat_map_res_ok. intros x Hx. apply descendant_and_self_ok.
  rewrite Forall_forall in H. apply H. exact Hx.
Qed.

(** ** sibling loops: with pairwise distinct ids the id lookup finds the node itself, so the
    loop walks down the child list of the parent *)
Lemma skip_while_id_split (L l1 l2 : list node) (x : node) :
  NoDup (map (nid doc) L) -> L = l1 ++ x :: l2 -> skip_while_id doc (nid doc x) L = x :: l2.
Proof.
  intros Hnd ->. induction l1 as [|y t IH]; cbn [app skip_while_id].
  - rewrite N.eqb_refl. reflexivity.
  - cbn [app map] in Hnd. inversion Hnd as [|k ks Hnin Hnd']; subst.
    destruct (N.eqb_spec (nid doc y) (nid doc x)) as [E|E].
    + exfalso. apply Hnin. rewrite E. rewrite map_app. apply in_or_app. right. left. reflexivity.
    + apply IH. exact Hnd'.
Qed.

Lemma skip_while_id_suffix k (L : list node) :
  exists l1, L = l1 ++ skip_while_id doc k L.
Proof.
  induction L as [|y t [l1 IH]]; cbn [skip_while_id].
  - exists []. reflexivity.
  - destruct (nid doc y =? k).
    + exists []. reflexivity.
    + exists (y :: l1). cbn [app]. f_equal. exact IH.
Qed.

(** one step from a node of the child list [L] of [p] *)
Lemma sibling_step_in_list (rv : bool) (p : node) (L l1 l2 : list node) (x : node) :
  L = (if rv then rev (child_nodes doc p) else child_nodes doc p) ->
  valid doc p -> L = l1 ++ x :: l2 ->
  let step := if rv then previous_sibling doc else next_sibling doc in
  step x = None \/ exists y l3, l2 = y :: l3 /\ step x = Some y.
Proof.
  intros HL Vp Hsplit step.
  assert (Hnd : NoDup (map (nid doc) L)).
  { pose proof (wf_sibling_ids doc Hwf p Vp) as H. rewrite HL. destruct rv; [|exact H].
    rewrite map_rev. apply NoDup_rev. exact H. }
  assert (Hx : In x (child_nodes doc p)).
  { assert (In x L) by (rewrite Hsplit; apply in_or_app; right; left; reflexivity).
    rewrite HL in H. destruct rv; [apply in_rev; exact H|exact H]. }
  destruct (wf_child_parent doc Hwf p x Vp Hx) as [Hpar|[Hnone1 Hnone2]];
    [|left; unfold step; destruct rv; assumption].
  assert (Hstep : step x = if sibling_nav_kind (kind doc x)
                           then (if has_child_list (kind doc p)
                                 then nth1 (skip_while_id doc (nid doc x) L) else None)
                           else None).
  { unfold step. destruct rv; unfold previous_sibling, next_sibling, sibling_child;
      rewrite Hpar, HL; reflexivity. }
  rewrite Hstep. destruct (sibling_nav_kind (kind doc x)); [|left; reflexivity].
  destruct (has_child_list (kind doc p)); [|left; reflexivity].
  rewrite (skip_while_id_split L l1 l2 x Hnd Hsplit).
  destruct l2 as [|y l3]; [left; reflexivity|right]. exists y, l3. split; reflexivity.
Qed.

Lemma sibling_loop_in_list (rv : bool) (p : node) (L : list node) :
  L = (if rv then rev (child_nodes doc p) else child_nodes doc p) -> valid doc p ->
  let step := if rv then previous_sibling doc else next_sibling doc in
  forall l2 l1 x fuel, L = l1 ++ x :: l2 -> (length l2 < fuel)%nat ->
    is_ok (sibling_loop step fuel (Some x)) (Forall (fun y => In y L)).
Proof.
  intros HL Vp step l2. induction l2 as [|y l3 IH]; intros l1 x fuel Hsplit Hf;
    (destruct fuel as [|f]; [lia|]); cbn [sibling_loop].
  - destruct (sibling_step_in_list rv p L l1 [] x HL Vp Hsplit) as [E|[y [l3 [E _]]]]; [|discriminate].
    fold step in E. rewrite E. destruct f; cbn [sibling_loop bind];
      (exists [x]; split; [reflexivity|constructor; [rewrite Hsplit; apply in_or_app; right; left; reflexivity|constructor]]).
  - destruct (sibling_step_in_list rv p L l1 (y :: l3) x HL Vp Hsplit) as [E|[y' [l3' [E1 E]]]];
      fold step in E; rewrite E.
    + destruct f; cbn [sibling_loop bind];
        (exists [x]; split; [reflexivity|constructor; [rewrite Hsplit; apply in_or_app; right; left; reflexivity|constructor]]).
    + inversion E1; subst y' l3'.
      apply (is_ok_bind _ _ (Forall (fun z => In z L))).
      * apply (IH (l1 ++ [x]) y f); [rewrite <- app_assoc; exact Hsplit|cbn [length] in Hf; lia].
      * intros r Hr. exists (x :: r). split; [reflexivity|constructor; [|exact Hr]].
        rewrite Hsplit. apply in_or_app. right. left. reflexivity.
Qed.

Lemma sibling_axis_ok (rv : bool) i : G i ->
  let step := if rv then previous_sibling doc else next_sibling doc in
  is_ok (sibling_loop step (nav_fuel doc) (step i)) (Forall G).
Proof.
  intros Gi step.
  destruct (step i) as [y|] eqn:Ey; [|exists []; split; [reflexivity|constructor]].
  (* y was found in the child list of the parent of i *)
  assert (Hy : exists p L l1 l2, parent_node doc i = Some p /\
               L = (if rv then rev (child_nodes doc p) else child_nodes doc p) /\ L = l1 ++ y :: l2).
  { unfold step in Ey. destruct rv; unfold previous_sibling, next_sibling, sibling_child in Ey;
      destruct (sibling_nav_kind (kind doc i)); try discriminate;
      destruct (parent_node doc i) as [p|] eqn:Ep; try discriminate;
      destruct (has_child_list (kind doc p)); try discriminate.
    - destruct (skip_while_id_suffix (nid doc i) (rev (child_nodes doc p))) as [l1 Hl1].
      destruct (skip_while_id doc (nid doc i) (rev (child_nodes doc p))) as [|a [|b l2]] eqn:Es;
        cbn [nth1] in Ey; try discriminate. inversion Ey; subst b.
      exists p, (rev (child_nodes doc p)), (l1 ++ [a]), l2. split; [reflexivity|split; [reflexivity|]].
      rewrite <- app_assoc. exact Hl1.
    - destruct (skip_while_id_suffix (nid doc i) (child_nodes doc p)) as [l1 Hl1].
      destruct (skip_while_id doc (nid doc i) (child_nodes doc p)) as [|a [|b l2]] eqn:Es;
        cbn [nth1] in Ey; try discriminate. inversion Ey; subst b.
      exists p, (child_nodes doc p), (l1 ++ [a]), l2. split; [reflexivity|split; [reflexivity|]].
      rewrite <- app_assoc. exact Hl1. }
  destruct Hy as [p [L [l1 [l2 [Ep [HL Hsplit]]]]]].
  destruct (wf_parent doc Hwf i p (G_valid i Gi) Ep) as [Vp _].
  assert (Gp : G p) by (eapply G_parent; eauto).
  assert (HLG : forall z, In z L -> G z).
  { intros z Hz. apply (G_children p z Gp). rewrite HL in Hz. destruct rv; [apply in_rev; exact Hz|exact Hz]. }
  assert (Hlen : (length L <= length doc)%nat).
  { apply valid_count.
    - apply (NoDup_map_inv' (nid doc)). pose proof (wf_sibling_ids doc Hwf p Vp) as H.
      rewrite HL. destruct rv; [rewrite map_rev; apply NoDup_rev; exact H|exact H].
    - apply Forall_forall. intros z Hz. apply G_valid. apply HLG. exact Hz. }
  destruct (sibling_loop_in_list rv p L HL Vp l2 l1 y (nav_fuel doc) Hsplit) as [r [Er Hr]].
  { rewrite Hsplit in Hlen. rewrite app_length in Hlen. cbn [length] in Hlen. unfold nav_fuel. lia. }
  exists r. split; [exact Er|]. eapply Forall_impl; [|exact Hr]. exact HLG.
Qed.

Lemma not_doctype_G l : Forall G l -> Forall G (not_doctype doc l).
Proof.
  intros H. apply Forall_forall. intros x Hx. rewrite Forall_forall in H. apply H.
  unfold not_doctype in Hx. apply filter_In in Hx. apply Hx.
Qed.

Lemma following_sibling_ok i : G i -> is_ok (following_sibling doc i) (Forall G).
Proof.
  intros Gi. unfold following_sibling. destruct (sibling_axis_ok false i Gi) as [l [El Hl]].
  cbn beta iota in El. rewrite El. cbn [bind]. eexists. split; [reflexivity|apply not_doctype_G; exact Hl].
Qed.

Lemma preceding_sibling_ok i : G i -> is_ok (preceding_sibling doc i) (Forall G).
Proof.
  intros Gi. unfold preceding_sibling. destruct (sibling_axis_ok true i Gi) as [l [El Hl]].
  cbn beta iota in El. rewrite El. cbn [bind]. eexists. split; [reflexivity|apply not_doctype_G; exact Hl].
Qed.

Lemma following_ok i : G i -> is_ok (following doc i) (Forall G).
Proof.
  intros Gi. unfold following.
  apply (is_ok_bind _ _ (Forall G)).
  { destruct (kind doc i); try (eexists; split; [reflexivity|constructor]).
    unfold xp_parent. destruct (parent_node doc i) as [owner|] eqn:Ep; [|eexists; split; [reflexivity|constructor]].
    apply descendant_ok. eapply G_parent; eauto. }
  intros pre Hpre.
  apply (is_ok_bind _ _ (Forall G)); [apply ancestor_and_self_ok; exact Gi|].
  intros al Hal.
  apply (is_ok_bind _ _ (Forall G)).
  { apply flat_map_res_ok. intros a Ha. rewrite Forall_forall in Hal.
    apply (is_ok_bind _ _ (Forall G)); [apply following_sibling_ok; apply Hal; exact Ha|].
    intros sl Hsl. apply descendant_and_self_all_ok. exact Hsl. }
  intros rest Hrest. eexists. split; [reflexivity|]. apply Forall_app. split; assumption.
Qed.

Lemma preceding_ok i : G i -> is_ok (preceding doc i) (Forall G).
Proof.
  intros Gi. unfold preceding.
  apply (is_ok_bind _ _ (Forall G)); [apply ancestor_and_self_ok; exact Gi|].
  intros al Hal. apply flat_map_res_ok. intros a Ha.
  rewrite Forall_forall in Hal.
  apply (is_ok_bind _ _ (Forall G)); [apply preceding_sibling_ok; apply Hal; exact Ha|].
  intros sl Hsl. apply flat_map_res_ok. intros p Hp. rewrite Forall_forall in Hsl.
  apply (is_ok_bind _ _ (Forall G)); [apply descendant_and_self_ok; apply Hsl; exact Hp|].
  intros d Hd. exists (rev d). split; [reflexivity|]. apply Forall_rev. exact Hd.
Qed.

Lemma root_of_G i : G i -> Forall G (root_of doc i).
Proof.
  intros Gi. unfold root_of. destruct (kind doc i); try (constructor; [exact Gi|constructor]);
    unfold owner_document; destruct (kind doc i); cbn [opt_list]; repeat constructor; exact G_root.
Qed.

(** every axis except [namespace] *)
Lemma axis_nodes_ok a i : G i -> a <> AxisName AxNamespace ->
  is_ok (axis_nodes doc a i) (Forall G).
Proof.
  intros Gi Hns. destruct a as [a|s]; cbn [axis_nodes].
  - destruct a; try (exfalso; apply Hns; reflexivity).
    + apply ancestor_ok; exact Gi.
    + apply ancestor_and_self_ok; exact Gi.
    + eexists; split; [reflexivity|]. apply Forall_forall. intros x Hx. eapply G_attrs; eauto.
    + eexists; split; [reflexivity|]. apply Forall_forall. intros x Hx. eapply G_children; eauto.
      apply xp_child_incl. exact Hx.
    + apply descendant_ok; exact Gi.
    + apply descendant_and_self_ok; exact Gi.
    + apply following_ok; exact Gi.
    + apply following_sibling_ok; exact Gi.
    + eexists; split; [reflexivity|].
      unfold xp_parent. destruct (parent_node doc i) as [p|] eqn:Ep; cbn [opt_list]; repeat constructor.
      eapply G_parent; eauto.
    + apply preceding_ok; exact Gi.
    + apply preceding_sibling_ok; exact Gi.
    + eexists; split; [reflexivity|]. repeat constructor. exact Gi.
  - destruct (str_eqb s s_at); eexists; (split; [reflexivity|]); apply Forall_forall; intros x Hx.
    + eapply G_attrs; eauto.
    + eapply G_children; eauto. apply xp_child_incl. exact Hx.
Qed.

(** ** string-values and lang() *)
Lemma concat_res_ok (l : list (res str)) :
  (forall r, In r l -> exists s, r = Ok s) -> exists s, concat_res l = Ok s.
Proof.
  induction l as [|r t IH]; intros H; cbn [concat_res]; [eexists; reflexivity|].
  destruct (H r (or_introl eq_refl)) as [a Ea]. destruct IH as [b Eb]; [intros; apply H; right; assumption|].
  rewrite Ea, Eb. cbn [bind]. eexists; reflexivity.
Qed.

Lemma data_res_ok d : d <> DataErr -> exists s, data_res d = Ok s.
Proof. destruct d; intros H; [congruence| |]; eexists; reflexivity. Qed.

Lemma string_value_fuel_ok : forall fuel i, valid doc i -> (length doc - N.to_nat i < fuel)%nat ->
  exists s, string_value_fuel fuel doc i = Ok s.
Proof.
  induction fuel as [|f IH]; intros i Vi Hlt; [lia|]. cbn [string_value_fuel].
  assert (Hchild : forall c, In c (child_nodes doc i) -> exists s, string_value_fuel f doc c = Ok s).
  { intros c Hc. destruct (wf_children doc Hwf i c Vi Hc) as [Vc Hic].
    apply IH; [exact Vc|]. unfold valid in Vc. lia. }
  assert (Hdoc : kind doc i = KDocument \/ kind doc i = KDocumentFragment ->
          exists s, match find (fun c => nkind_eqb (kind doc c) KElement) (child_nodes doc i) with
                    | Some e => string_value_fuel f doc e | None => Err XErrDom end = Ok s).
  { intros Hk. destruct (wf_docelem doc Hwf i Vi Hk) as [e [He Hke]].
    destruct (find (fun c => nkind_eqb (kind doc c) KElement) (child_nodes doc i)) as [e'|] eqn:Ef.
    - apply find_some in Ef. apply Hchild. apply Ef.
    - exfalso. pose proof (find_none _ _ Ef e He) as Hn. cbn beta in Hn. rewrite Hke in Hn. discriminate. }
  destruct (kind doc i) eqn:Ek;
    try (apply data_res_ok; apply (wf_data doc Hwf i Vi));
    try (eexists; reflexivity).
  - apply concat_res_ok. intros r Hr. apply in_map_iff in Hr. destruct Hr as [c [Ec Hc]]. subst r.
    destruct (kind doc c); try (eexists; reflexivity); apply Hchild; exact Hc.
  - apply Hdoc. left. reflexivity.
  - apply Hdoc. right. reflexivity.
Qed.

Lemma string_value_ok i : valid doc i -> exists s, string_value doc i = Ok s.
Proof. intros Vi. apply string_value_fuel_ok; [exact Vi|]. unfold nav_fuel. lia. Qed.

Lemma find_xml_lang_ok l : Forall (valid doc) l ->
  exists o, find_xml_lang doc l = Ok o /\ match o with Some a => In a l | None => True end.
Proof.
  induction l as [|a t IH]; intros H; cbn [find_xml_lang]; [exists None; split; [reflexivity|exact I]|].
  inversion H as [|a' t' Va Vt]; subst. destruct (IH Vt) as [o [Eo Ho]].
  assert (Hrest : exists o', find_xml_lang doc t = Ok o' /\ match o' with Some b => In b (a :: t) | None => True end).
  { exists o. split; [exact Eo|]. destruct o; [right; exact Ho|exact I]. }
  pose proof (wf_name doc Hwf a Va) as Hn. unfold name_of.
  destruct (n_name (getd doc a)) as [| |local prefix uri]; [exact Hrest|contradiction|].
  destruct prefix as [p|]; [|exact Hrest].
  destruct (str_eqb local fn_lang && str_eqb p s_xml); [|exact Hrest].
  exists (Some a). split; [reflexivity|left; reflexivity].
Qed.

Lemma lang_fuel_ok name : forall fuel i, valid doc i -> (N.to_nat i < fuel)%nat ->
  exists b, lang_fuel doc fuel name (Some i) = Ok b.
Proof.
  induction fuel as [|f IH]; intros i Vi Hlt; [lia|]. cbn [lang_fuel].
  assert (Hattrs : Forall (valid doc) (attributes doc i)).
  { apply Forall_forall. intros a Ha. apply (wf_attrs doc Hwf i a Vi Ha). }
  destruct (find_xml_lang_ok (attributes doc i) Hattrs) as [o [-> Ho]]. cbn [bind].
  destruct o as [a|].
  - rewrite Forall_forall in Hattrs.
    destruct (data_res_ok (n_data (getd doc a)) (wf_data doc Hwf a (Hattrs a Ho))) as [v ->].
    cbn [bind]. eexists; reflexivity.
  - unfold xp_parent. destruct (parent_node doc i) as [p|] eqn:Ep.
    + destruct (wf_parent doc Hwf i p Vi Ep) as [Vp Hpi]. apply IH; [exact Vp|lia].
    + destruct f; cbn [lang_fuel]; eexists; reflexivity.
Qed.

End Nav.
