(* Spec side of the xparse domain (C08).  Commands (first word):
     spell <expr> <wtree>          -> `S <string> wf=<b> ws=<b> A <expr> N <norm expr>`
     min <abbr:0|1> <expr> <wtree> -> the same for the surface tree  paren (abbreviate? e);  N is norm of the INPUT tree
     canon <impl ast dump>         -> `A <abs_or e> N <norm (abs_or e)>`   (dump = harness/xparse notation)
   Expressions travel in prefix notation, one token per word (see pr_expr). *)

exception Bad of string

(* ---------------------------------------------------------------- token stream *)
let toks : string array ref = ref [||]
let pos = ref 0
let next () =
  if !pos >= Array.length !toks then raise (Bad "eof");
  let t = !toks.(!pos) in incr pos; t
let next_int () = match int_of_string_opt (next ()) with Some n when n >= 0 && n < 100000 -> n | _ -> raise (Bad "int")
let next_str () = dec (next ())
let rec rep n f = if n = 0 then [] else let x = f () in x :: rep (n - 1) f

(* ---------------------------------------------------------------- reader: spec trees *)
let rd_q () = match next () with
  | "qp" -> let p = next_str () in let l = next_str () in QN (Some p, l)
  | "qu" -> QN (None, next_str ())
  | _ -> raise (Bad "qname")
let rd_sep () = match next () with "/" -> SSlash | "//" -> SDSlash | _ -> raise (Bad "sep")
let rd_op () = match next () with
  | "or" -> BOr | "and" -> BAnd | "=" -> BEq | "!=" -> BNe | "<" -> BLt | ">" -> BGt | "<=" -> BLe | ">=" -> BGe
  | "+" -> BAdd | "-" -> BSub | "*" -> BMul | "div" -> BDiv | "mod" -> BMod | "|" -> BUnion
  | _ -> raise (Bad "op")
let rd_axis_name s = match s with
  | "ancestor" -> XAncestor | "ancestor-or-self" -> XAncestorOrSelf | "attribute" -> XAttribute | "child" -> XChild
  | "descendant" -> XDescendant | "descendant-or-self" -> XDescendantOrSelf | "following" -> XFollowing
  | "following-sibling" -> XFollowingSibling | "namespace" -> XNamespace | "parent" -> XParent
  | "preceding" -> XPreceding | "preceding-sibling" -> XPrecedingSibling | "self" -> XSelf
  | _ -> raise (Bad "axis")
let rec rd_expr () = match next () with
  | "bin" -> let o = rd_op () in let a = rd_expr () in let b = rd_expr () in XBin (o, a, b)
  | "neg" -> XNeg (rd_expr ())
  | "lit" -> XLit (next_str ())
  | "num" -> XNum (next_str ())
  | "var" -> XVar (rd_q ())
  | "call" -> let q = rd_q () in let n = next_int () in XCall (q, rep n rd_expr)
  | "paren" -> XParen (rd_expr ())
  | "filter" -> let p = rd_expr () in let n = next_int () in XFilter (p, rep n rd_expr)
  | "root" -> XRoot
  | "path" ->
    let st = (match next () with
        | "rel" -> SRel
        | "abs" -> SAbs (rd_sep ())
        | "from" -> let f = rd_expr () in let s = rd_sep () in SFrom (f, s)
        | _ -> raise (Bad "start")) in
    let first = rd_step () in
    let n = next_int () in
    XPath (st, first, rep n (fun () -> let s = rd_sep () in let x = rd_step () in (s, x)))
  | t -> raise (Bad ("expr " ^ t))
and rd_step () = match next () with
  | "dot" -> XDot
  | "dotdot" -> XDotDot
  | "step" ->
    let a = (match next () with
        | "full" -> AFull (rd_axis_name (next ()))
        | "at" -> AAt
        | "omit" -> AOmit
        | _ -> raise (Bad "axis spec")) in
    let t = (match next () with
        | "any" -> TAny
        | "ns" -> TNs (next_str ())
        | "name" -> TName (rd_q ())
        | "type" -> TType (match next () with "comment" -> KComment | "text" -> KText | "pi" -> KPi | "node" -> KNode | _ -> raise (Bad "ntype"))
        | "pilit" -> TPi (next_str ())
        | _ -> raise (Bad "test")) in
    let n = next_int () in
    XStep (a, t, rep n rd_expr)
  | _ -> raise (Bad "step")
let rec rd_w () = match next () with
  | "w" ->
    let f = (next () = "1") in
    let ng = next_int () in let g = rep ng next_str in
    let nk = next_int () in let k = rep nk rd_w in
    W (f, g, k)
  | _ -> raise (Bad "wtree")

(* ---------------------------------------------------------------- printer: spec trees *)
let sb = Buffer.create 1024
let w s = if Buffer.length sb > 0 then Buffer.add_char sb ' '; Buffer.add_string sb s
let pr_q q = match q with QN (Some p, l) -> w "qp"; w (enc p); w (enc l) | QN (None, l) -> w "qu"; w (enc l)
let pr_sep s = w (match s with SSlash -> "/" | SDSlash -> "//")
let op_text o = match o with
  | BOr -> "or" | BAnd -> "and" | BEq -> "=" | BNe -> "!=" | BLt -> "<" | BGt -> ">" | BLe -> "<=" | BGe -> ">="
  | BAdd -> "+" | BSub -> "-" | BMul -> "*" | BDiv -> "div" | BMod -> "mod" | BUnion -> "|"
let axis_text a = match a with
  | XAncestor -> "ancestor" | XAncestorOrSelf -> "ancestor-or-self" | XAttribute -> "attribute" | XChild -> "child"
  | XDescendant -> "descendant" | XDescendantOrSelf -> "descendant-or-self" | XFollowing -> "following"
  | XFollowingSibling -> "following-sibling" | XNamespace -> "namespace" | XParent -> "parent"
  | XPreceding -> "preceding" | XPrecedingSibling -> "preceding-sibling" | XSelf -> "self"
let rec pr_expr e = match e with
  | XBin (o, a, b) -> w "bin"; w (op_text o); pr_expr a; pr_expr b
  | XNeg a -> w "neg"; pr_expr a
  | XLit s -> w "lit"; w (enc s)
  | XNum s -> w "num"; w (enc s)
  | XVar q -> w "var"; pr_q q
  | XCall (q, args) -> w "call"; pr_q q; w (string_of_int (List.length args)); List.iter pr_expr args
  | XParen a -> w "paren"; pr_expr a
  | XFilter (p, preds) -> w "filter"; pr_expr p; w (string_of_int (List.length preds)); List.iter pr_expr preds
  | XRoot -> w "root"
  | XPath (st, first, rest) ->
    w "path";
    (match st with
     | SRel -> w "rel"
     | SAbs s -> w "abs"; pr_sep s
     | SFrom (f, s) -> w "from"; pr_expr f; pr_sep s);
    pr_step first;
    w (string_of_int (List.length rest));
    List.iter (fun (s, x) -> pr_sep s; pr_step x) rest
and pr_step s = match s with
  | XDot -> w "dot"
  | XDotDot -> w "dotdot"
  | XStep (a, t, preds) ->
    w "step";
    (match a with AFull x -> w "full"; w (axis_text x) | AAt -> w "at" | AOmit -> w "omit");
    (match t with
     | TAny -> w "any"
     | TNs p -> w "ns"; w (enc p)
     | TName q -> w "name"; pr_q q
     | TType k -> w "type"; w (match k with KComment -> "comment" | KText -> "text" | KPi -> "pi" | KNode -> "node")
     | TPi l -> w "pilit"; w (enc l));
    w (string_of_int (List.length preds)); List.iter pr_expr preds
let show e = Buffer.clear sb; pr_expr e; Buffer.contents sb

(* ---------------------------------------------------------------- reader: the dump of the Rust AST *)
let rd_mq () = match next () with
  | "qp" -> let p = next_str () in let l = next_str () in QPrefixed (p, l)
  | "qu" -> QUnprefixed (next_str ())
  | _ -> raise (Bad "mqname")
let rd_lp () = match next () with "/" -> LpCurrent | "//" -> LpDescendantOrSelfNode | _ -> raise (Bad "lpop")
let expect s = if next () <> s then raise (Bad ("expected " ^ s))
let rec m_or () =
  expect "or"; let n = next_int () in
  if n = 0 then raise (Bad "empty or");
  let f = m_and () in
  let rec go k = if k = 0 then AndNil else let a = m_and () in AndCons (a, go (k - 1)) in
  EOr (f, go (n - 1))
and m_and () =
  expect "and"; let n = next_int () in
  if n = 0 then raise (Bad "empty and");
  let f = m_eq () in
  let rec go k = if k = 0 then EqNil else let a = m_eq () in EqCons (a, go (k - 1)) in
  EAnd (f, go (n - 1))
and m_eq () =
  expect "eq"; let f = m_rel () in let n = next_int () in
  let rec go k = if k = 0 then EqopNil else
      let o = (match next () with "=" -> OpEqual | "!=" -> OpNotEqual | _ -> raise (Bad "eqop")) in
      let a = m_rel () in EqopCons (o, a, go (k - 1)) in
  EEq (f, go n)
and m_rel () =
  expect "rel"; let f = m_add () in let n = next_int () in
  let rec go k = if k = 0 then RelopNil else
      let o = (match next () with "<" -> OpLessThan | ">" -> OpGreaterThan | "<=" -> OpLessEqual | ">=" -> OpGreaterEqual | _ -> raise (Bad "relop")) in
      let a = m_add () in RelopCons (o, a, go (k - 1)) in
  ERel (f, go n)
and m_add () =
  expect "add"; let f = m_mul () in let n = next_int () in
  let rec go k = if k = 0 then AddopNil else
      let o = (match next () with "+" -> OpAdd | "-" -> OpSub | _ -> raise (Bad "addop")) in
      let a = m_mul () in AddopCons (o, a, go (k - 1)) in
  EAdd (f, go n)
and m_mul () =
  expect "mul"; let f = m_unary () in let n = next_int () in
  let rec go k = if k = 0 then MulopNil else
      let o = (match next () with "*" -> OpMul | "div" -> OpDiv | "mod" -> OpMod | _ -> raise (Bad "mulop")) in
      let a = m_unary () in MulopCons (o, a, go (k - 1)) in
  EMul (f, go n)
and m_unary () =
  expect "un"; let n = next_int () in let u = m_union () in EUnary (n_of_int n, u)
and m_union () =
  expect "union"; let n = next_int () in
  let rec go k = if k = 0 then PathNil else let p = m_path () in PathCons (p, go (k - 1)) in
  EUnion (go n)
and m_path () = match next () with
  | "root" -> PRoot
  | "pfilter" -> PFilter (m_filter ())
  | "prel" -> PRel (m_relpath ())
  | "pabs" -> let o = rd_lp () in PAbs (o, m_relpath ())
  | "pfpath" -> let f = m_filter () in let o = rd_lp () in PFilterPath (f, o, m_relpath ())
  | _ -> raise (Bad "path")
and m_filter () =
  expect "filter"; let p = m_primary () in EFilter (p, m_exprs ())
and m_exprs () =
  let n = next_int () in
  let rec go k = if k = 0 then ExprNil else let e = m_or () in ExprCons (e, go (k - 1)) in
  go n
and m_primary () = match next () with
  | "var" -> PrimVariable (rd_mq ())
  | "paren" -> PrimExpr (m_or ())
  | "lit" -> PrimLiteral (next_str ())
  | "num" -> PrimNumber (next_str ())
  | "fn" -> let q = rd_mq () in PrimFunction (q, m_exprs ())
  | _ -> raise (Bad "primary")
and m_relpath () =
  expect "relpath"; let s = m_step () in let n = next_int () in
  let rec go k = if k = 0 then StepopNil else let o = rd_lp () in let x = m_step () in StepopCons (o, x, go (k - 1)) in
  ERelPath (s, go n)
and m_step () = match next () with
  | "dot" -> StepCurrent
  | "dotdot" -> StepParent
  | "step" ->
    let a = (match next () with
        | "abbr" -> AxisAbbreviated (next_str ())
        | "axis" -> AxisName (match next () with
            | "ancestor" -> AxAncestor | "ancestor-or-self" -> AxAncestorOrSelf | "attribute" -> AxAttribute
            | "child" -> AxChild | "descendant" -> AxDescendant | "descendant-or-self" -> AxDescendantOrSelf
            | "following" -> AxFollowing | "following-sibling" -> AxFollowingSibling | "namespace" -> AxNamespace
            | "parent" -> AxParent | "preceding" -> AxPreceding | "preceding-sibling" -> AxPrecedingSibling
            | "self" -> AxCurrent | _ -> raise (Bad "axis name"))
        | _ -> raise (Bad "axis")) in
    let t = (match next () with
        | "t*" -> TestName NameAll
        | "tns" -> TestName (NameNamespace (next_str ()))
        | "tq" -> TestName (NameQName (rd_mq ()))
        | "tt" -> TestType (match next () with "comment" -> NtComment | "text" -> NtText | "pi" -> NtPI | "node" -> NtNode | _ -> raise (Bad "nt"))
        | "tpi" -> TestPI (next_str ())
        | _ -> raise (Bad "test")) in
    StepTest (a, t, m_exprs ())
  | _ -> raise (Bad "step")

(* ---------------------------------------------------------------- commands *)
let b2s b = if b then "1" else "0"
let finished () = if !pos <> Array.length !toks then raise (Bad "trailing words")

let () = register "xparse" (fun words ->
  toks := Array.of_list words; pos := 0;
  try
    match next () with
    | "spell" ->
      let a = rd_expr () in let wt = rd_w () in finished ();
      let s = spell_surface a wt in
      "S " ^ enc s ^ " wf=" ^ b2s (wfb a) ^ " ws=" ^ b2s (ws_ok wt) ^ " A " ^ show a ^ " N " ^ show (norm a)
    | "min" ->
      let ab = (next () = "1") in
      let a0 = rd_expr () in let wt = rd_w () in finished ();
      let a = paren (if ab then abbreviate a0 else a0) in
      let s = spell_surface a wt in
      "S " ^ enc s ^ " wf=" ^ b2s (wfb a) ^ " ws=" ^ b2s (ws_ok wt) ^ " A " ^ show a ^ " N " ^ show (norm a0)
    | "canon" ->
      let e = m_or () in finished ();
      let a = abs_or e in
      "A " ^ show a ^ " N " ^ show (norm a)
    | _ -> "badinput"
  with Bad m -> "badast " ^ m)
