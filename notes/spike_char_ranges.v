From Coq Require Import List NArith Lia Bool.
Import ListNotations.
Open Scope N_scope.

Inductive cpred :=
| InR (l : list (N * N))          (* union of inclusive ranges *)
| Or (a b : cpred) | And (a b : cpred) | Not (a : cpred)
| NotIn (l : list N).             (* excepts.contains(c) negated *)

Definition in_range (c : N) (r : N * N) : bool := (fst r <=? c) && (c <? snd r + 1).
Fixpoint eval (p : cpred) (c : N) : bool :=
  match p with
  | InR l => existsb (in_range c) l
  | Or a b => eval a c || eval b c
  | And a b => eval a c && eval b c
  | Not a => negb (eval a c)
  | NotIn l => negb (existsb (fun x => (x <=? c) && (c <? x + 1)) l)
  end.

(* breakpoints: every threshold t such that the predicate only looks at (t <=? c) *)
Fixpoint bps (p : cpred) : list N :=
  match p with
  | InR l => flat_map (fun r => [fst r; snd r + 1]) l
  | Or a b | And a b => bps a ++ bps b
  | Not a => bps a
  | NotIn l => flat_map (fun x => [x; x + 1]) l
  end.

Definition same_side (l : list N) (c c' : N) : Prop := forall b, In b l -> (b <=? c) = (b <=? c').

Lemma ltb_as_leb c t : (c <? t) = negb (t <=? c).
Proof. destruct (N.ltb_spec c t), (N.leb_spec t c); try reflexivity; lia. Qed.

Lemma eval_same p : forall c c', same_side (bps p) c c' -> eval p c = eval p c'.
Proof.
  induction p as [l|a IHa b IHb|a IHa b IHb|a IHa|l]; intros c c' H; cbn [eval bps] in *.
  - induction l as [|r l IH]; cbn [existsb flat_map] in *; [reflexivity|].
    unfold in_range at 1 3. rewrite !ltb_as_leb.
    rewrite (H (fst r)) by (cbn; auto). rewrite (H (snd r + 1)) by (cbn; auto).
    f_equal. apply IH. intros b Hb. apply H. cbn. auto.
  - rewrite (IHa c c'), (IHb c c'); [reflexivity| |]; intros x Hx; apply H; apply in_or_app; auto.
  - rewrite (IHa c c'), (IHb c c'); [reflexivity| |]; intros x Hx; apply H; apply in_or_app; auto.
  - f_equal; apply IHa; exact H.
  - f_equal. induction l as [|x l IH]; cbn [existsb flat_map] in *; [reflexivity|].
    rewrite !ltb_as_leb. rewrite (H x) by (cbn; auto). rewrite (H (x + 1)) by (cbn; auto).
    f_equal. apply IH. intros b Hb. apply H. cbn. auto.
Qed.

(* representative: the largest breakpoint <= c, or 0 *)
Fixpoint floor_bp (l : list N) (c : N) : N :=
  match l with
  | [] => 0
  | b :: l' => let m := floor_bp l' c in if b <=? c then N.max b m else m
  end.
Lemma floor_le l c : floor_bp l c <= c.
Proof. induction l as [|b l IH]; cbn [floor_bp]; [lia|]. destruct (N.leb_spec b c); lia. Qed.
Lemma floor_in l c : floor_bp l c = 0 \/ In (floor_bp l c) l.
Proof. induction l as [|b l IH]; cbn [floor_bp]; [auto|]. destruct (b <=? c).
  - destruct (N.max_spec b (floor_bp l c)) as [[_ ->]|[_ ->]]; [destruct IH; [auto|right; right; auto]|right; left; reflexivity].
  - destruct IH; [auto|right; right; auto]. Qed.
Lemma floor_side l c : same_side l c (floor_bp l c).
Proof. intros b Hb. pose proof (floor_le l c).
  destruct (N.leb_spec b c) as [L|L]; destruct (N.leb_spec b (floor_bp l c)) as [L'|L']; try reflexivity; try lia.
  exfalso. revert L'. induction l as [|x l IH]; [destruct Hb|]. cbn [floor_bp].
  destruct Hb as [->|Hb].
  - destruct (N.leb_spec b c); lia.
  - destruct (N.leb_spec x c); intros; [apply IH; auto; [apply floor_le|lia]|apply IH; auto; apply floor_le]. Qed.

Definition agree_on (p q : cpred) (l : list N) : bool := forallb (fun b => Bool.eqb (eval p b) (eval q b)) l.
Definition equiv_check (p q : cpred) : bool := agree_on p q (0 :: bps p ++ bps q).

Theorem equiv_sound p q : equiv_check p q = true -> forall c, eval p c = eval q c.
Proof.
  intros H c. set (l := bps p ++ bps q).
  assert (Hs : same_side l c (floor_bp l c)) by apply floor_side.
  rewrite (eval_same p c (floor_bp l c)) by (intros b Hb; apply Hs; apply in_or_app; auto).
  rewrite (eval_same q c (floor_bp l c)) by (intros b Hb; apply Hs; apply in_or_app; auto).
  unfold equiv_check, agree_on in H. rewrite forallb_forall in H.
  apply Bool.eqb_prop, H. fold l. destruct (floor_in l c) as [->|Hin]; [left; reflexivity|right; exact Hin].
Qed.

(* the XML NameStartChar production, and the Rust table with its typo *)
Definition spec_nsc := InR [(58,58);(65,90);(95,95);(97,122);(0xC0,0xD6);(0xD8,0xF6);(0xF8,0x2FF);(0x370,0x37D);(0x37F,0x1FFF);(0x200C,0x200D);(0x2070,0x218F);(0x2C00,0x2FEF);(0x3001,0xD7FF);(0xF900,0xFDCF);(0xFDF0,0xFFFD);(0x10000,0xEFFFF)].
Definition rust_nsc := Or (InR [(58,58)]) (Or (InR [(65,90)]) (Or (InR [(95,95)]) (Or (InR [(97,122)])
  (InR [(0xC0,0xD6);(0xD8,0xF6);(0xF8,0x2FF);(0x370,0x37D);(0x37F,0x1FFF);(0x200C,0x200D);(0x2070,0x218F);(0x2C00,0x2EFE);(0x3001,0xD7FF);(0xF900,0xFDCF);(0xFDF0,0xFFFD);(0x10000,0xEFFFF)])))).
Definition first_diff (p q : cpred) : option N :=
  find (fun b => negb (Bool.eqb (eval p b) (eval q b))) (0 :: bps p ++ bps q).
Eval vm_compute in equiv_check spec_nsc rust_nsc.
Eval vm_compute in first_diff spec_nsc rust_nsc.
Definition fixed_nsc := Or (InR [(58,58)]) (InR [(65,90);(95,95);(97,122);(0xC0,0xD6);(0xD8,0xF6);(0xF8,0x2FF);(0x370,0x37D);(0x37F,0x1FFF);(0x200C,0x200D);(0x2070,0x218F);(0x2C00,0x2FEF);(0x3001,0xD7FF);(0xF900,0xFDCF);(0xFDF0,0xFFFD);(0x10000,0xEFFFF)]).
Theorem fixed_ok : forall c, eval fixed_nsc c = eval spec_nsc c.
Proof. apply equiv_sound. vm_compute. reflexivity. Qed.
Theorem rust_refuted : exists c, eval rust_nsc c <> eval spec_nsc c.
Proof. exists 0x2EFF. vm_compute. discriminate. Qed.
Print Assumptions fixed_ok.
