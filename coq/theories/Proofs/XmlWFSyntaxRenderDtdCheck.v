(** * C01, the DTD rung of [render_wf], part 4: the constraints.  The generalisation of
    Proofs/XmlWFSyntaxRenderCheck.v to an arbitrary environment of declared entities (in which the
    predefined names have their standard meaning), an arbitrary (sufficient) fuel, and defaulted attributes:
    what is read back from the rendering of an abstract node passes [expand], [tree_ok] and [ns_tree]
    whenever the canonical tree does. *)
From Coq Require Import List NArith Arith Lia Bool Permutation.
From XmlRs Require Import Base.CPred Spec.XmlChars Spec.XmlWF Spec.Infoset Proofs.XmlWFRender Proofs.XmlWFSyntaxRenderNode
  Proofs.XmlWFSyntaxRenderCheck.
From XmlRs Require Proofs.XmlWFSyntaxCheck Proofs.XmlWFSyntaxConvCheck.
Import ListNotations.
Local Open Scope nat_scope.

(** ** generic facts about the checks *)
Lemma av_ok_app_g f en vis (a b : list avpiece) : av_ok f en vis a = None -> av_ok f en vis b = None -> av_ok f en vis (a ++ b) = None.
Proof. destruct f; [discriminate|]. cbn [av_ok]. apply C.allc_app. Qed.

Lemma av_ok_app_inv_g f en vis (a b : list avpiece) : av_ok f en vis (a ++ b) = None -> av_ok f en vis a = None /\ av_ok f en vis b = None.
Proof. destruct f; [discriminate|]. cbn [av_ok]. apply V.allc_app_inv. Qed.

Lemma av_ok_lits_g f en vis (s : list char) (g : char -> avpiece) : (forall ch, g ch = AvLit ch) -> av_ok (S f) en vis (map g s) = None.
Proof. intros Hg. cbn [av_ok]. apply C.allc_map_ok. intros x. now rewrite Hg. Qed.

Lemma av_ok_char_g f en vis n : isChar n = true -> av_ok (S f) en vis [AvChar n] = None.
Proof. intros H. cbn [av_ok allc fold_right]. now rewrite H. Qed.

Lemma expand_elem_g f en vis nm atts et kids : expand f en vis (XElem nm atts et kids) =
  match mapM (expand f en vis) kids with inl r => inl r | inr kids' => inr (XElem nm atts et kids') end.
Proof. destruct f; reflexivity. Qed.

Definition leaf (x : xcontent) : Prop := match x with XElem _ _ _ _ | XExp _ _ | XEntRef _ => False | _ => True end.
Lemma expand_leaf f en vis x : leaf x -> expand f en vis x = inr x.
Proof. destruct f; destruct x; intros H; try reflexivity; destruct H. Qed.

Lemma tree_ok_elem_g f en nm atts et kids : tree_ok f en (XElem nm atts et kids) = None ->
  match et with Some e => str_eqb e nm | None => true end = true /\ nodup_names (map fst atts) = true /\
  allc (fun a : str * list avpiece => av_ok f en [] (snd a)) atts = None /\ allc (tree_ok f en) kids = None.
Proof.
  cbn [tree_ok]. intros H. apply V.andc_none in H. destruct H as [H1 H]. apply V.andc_none in H. destruct H as [H2 H].
  apply V.andc_none in H. destruct H as [H3 H4]. apply V.guard_none in H1. apply V.guard_none in H2. auto.
Qed.

Lemma allc_ext_in {A} (g h : A -> chk) (l : list A) : Forall (fun x => g x = h x) l -> allc g l = allc h l.
Proof. induction 1 as [|x l Hx _ IH]; [reflexivity|]. unfold allc in *. cbn [fold_right]. now rewrite Hx, IH. Qed.

Lemma mem_perm (k : str) (l1 l2 : list str) : Permutation l1 l2 -> mem k l1 = mem k l2.
Proof.
  intros HP. destruct (mem k l1) eqn:E1; symmetry.
  - apply mem_In. apply mem_In in E1. exact (Permutation_in _ HP E1).
  - destruct (mem k l2) eqn:E2; [|reflexivity]. apply mem_In in E2. apply (Permutation_in _ (Permutation_sym HP)) in E2. apply mem_In in E2. congruence.
Qed.

Section Gen.
Variable f' : nat.
Variable en : env.
Hypothesis Hstd : std_predef en.
Let f := S (S f').

(** ** the predefined entities under [en] *)
Ltac std nm t := let E := fresh "E" in assert (E : assoc nm (e_ents en) = Some (EInternal t)) by (apply Hstd; cbn; auto 6);
  unfold s_lt, s_gt, s_amp, s_apos, s_quot in E; rewrite E; clear E.
Lemma predef_av_g nm : C.is_predef nm -> av_ok f en [] [AvEnt nm] = None.
Proof.
  unfold f. intros [->|[->|[->|[->| ->]]]]; cbn [av_ok allc fold_right mem existsb].
  - std s_lt [38;35;54;48;59]%N. reflexivity.
  - std s_gt [62]%N. reflexivity.
  - std s_amp [38;35;51;56;59]%N. reflexivity.
  - std s_apos [39]%N. reflexivity.
  - std s_quot [34]%N. reflexivity.
Qed.

Lemma predef_expand_g nm : C.is_predef nm ->
  exists its, expand f en [] (XEntRef nm) = inr (XExp nm its) /\ tree_ok f en (XExp nm its) = None /\
              forall sub sc, ns_tree f en sub sc (XExp nm its) = None.
Proof.
  unfold f. generalize (S f') as g. intros g [->|[->|[->|[->| ->]]]].
  - exists [XCharRef 60%N]. split; [|split; [reflexivity|intros; reflexivity]]. cbn [expand mem existsb].
    std s_lt [38;35;54;48;59]%N. cbv beta iota. change (p_content _ _) with (Some ([XCharRef 60%N], @nil char)). cbv iota.
    cbn [mapM]. rewrite expand_leaf by exact I. reflexivity.
  - exists [XChar 62%N]. split; [|split; [reflexivity|intros; reflexivity]]. cbn [expand mem existsb].
    std s_gt [62]%N. cbv beta iota. change (p_content _ _) with (Some ([XChar 62%N], @nil char)). cbv iota.
    cbn [mapM]. rewrite expand_leaf by exact I. reflexivity.
  - exists [XCharRef 38%N]. split; [|split; [reflexivity|intros; reflexivity]]. cbn [expand mem existsb].
    std s_amp [38;35;51;56;59]%N. cbv beta iota. change (p_content _ _) with (Some ([XCharRef 38%N], @nil char)). cbv iota.
    cbn [mapM]. rewrite expand_leaf by exact I. reflexivity.
  - exists [XChar 39%N]. split; [|split; [reflexivity|intros; reflexivity]]. cbn [expand mem existsb].
    std s_apos [39]%N. cbv beta iota. change (p_content _ _) with (Some ([XChar 39%N], @nil char)). cbv iota.
    cbn [mapM]. rewrite expand_leaf by exact I. reflexivity.
  - exists [XChar 34%N]. split; [|split; [reflexivity|intros; reflexivity]]. cbn [expand mem existsb].
    std s_quot [34]%N. cbv beta iota. change (p_content _ _) with (Some ([XChar 34%N], @nil char)). cbv iota.
    cbn [mapM]. rewrite expand_leaf by exact I. reflexivity.
Qed.

(** ** attribute values *)
Lemma lit_pieces_ok_g q c p : forall s i, all_chars s = true -> av_ok f en [] (lit_pieces q c p i s) = None.
Proof.
  induction s as [|ch s IH]; intros i Hc; [reflexivity|]. cbn [all_chars forallb] in Hc. apply andb_true_iff in Hc. destruct Hc as [Hch Hs].
  cbn [lit_pieces]. change (lit_piece q (c (i :: p)) ch :: lit_pieces q c p (i + 1) s) with ([lit_piece q (c (i :: p)) ch] ++ lit_pieces q c p (i + 1) s).
  apply av_ok_app_g; [|apply IH; exact Hs].
  destruct (lit_piece_rel q (c (i :: p)) ch) as [->|[->|[nm [Hn ->]]]].
  - reflexivity.
  - apply av_ok_char_g. exact Hch.
  - apply predef_av_g. eapply predef_name_is_predef. exact Hn.
Qed.

Lemma av_ok_read_g q c p : forall v i, items_ok v = true -> av_ok f en [] (att_pieces v) = None ->
  av_ok f en [] (items_pieces q c p i v) = None.
Proof.
  induction v as [|it v IH]; intros i Hok Hav; [reflexivity|]. cbn [items_ok forallb] in Hok. apply andb_true_iff in Hok. destruct Hok as [Hit Hv].
  destruct it as [s|nm].
  - rewrite att_pieces_cons_text in Hav. apply av_ok_app_inv_g in Hav. destruct Hav as [_ Hav].
    cbn [items_pieces]. apply av_ok_app_g; [apply lit_pieces_ok_g; exact Hit|apply IH; assumption].
  - change (att_pieces (IRef nm :: v)) with ([AvEnt nm] ++ att_pieces v) in Hav. apply av_ok_app_inv_g in Hav. destruct Hav as [H1 H2].
    cbn [items_pieces]. change (AvEnt nm :: items_pieces q c p (i + 1) v) with ([AvEnt nm] ++ items_pieces q c p (i + 1) v).
    apply av_ok_app_g; [exact H1|apply IH; assumption].
Qed.

Lemma atts_av_ok_g atts parsed : forallb att_ok atts = true -> atts_read atts parsed ->
  allc (fun a : str * list avpiece => av_ok f en [] (snd a)) (canon_atts atts) = None ->
  allc (fun a : str * list avpiece => av_ok f en [] (snd a)) parsed = None.
Proof.
  intros Hok (atts' & HP & HF) Hav.
  assert (Hall : forall a, In a atts' -> items_ok (snd a) = true /\ av_ok f en [] (att_pieces (snd a)) = None).
  { intros a Hin. apply (Permutation_in _ HP) in Hin. split.
    - rewrite forallb_forall in Hok. specialize (Hok a Hin). unfold att_ok in Hok. apply andb_true_iff in Hok. tauto.
    - apply (allc_In _ _ (fst a, att_pieces (snd a)) Hav). unfold canon_atts. apply in_map_iff. exists a. auto. }
  clear HP Hav Hok. induction HF as [|a pa atts' parsed [_ (q & c & p & i & Hq & Hv)] _ IH]; [reflexivity|].
  apply C.allc_cons.
  - rewrite Hv. destruct (Hall a (or_introl eq_refl)) as [H1 H2]. apply av_ok_read_g; assumption.
  - apply IH. intros b Hb. apply Hall. right. exact Hb.
Qed.

(** ** normalized values and the namespace test of one element *)
Definition nvalg (a : str * list avpiece) : str * str := (fst a, av_value f en (snd a)).

Lemma nvalg_read (atts' : list (str * list aitem)) parsed : Forall2 att_read atts' parsed ->
  map nvalg parsed = map nvalg (canon_atts atts').
Proof.
  induction 1 as [|a pa atts' parsed [Hn (q & c & p & i & Hq & Hv)] _ IH]; [reflexivity|].
  cbn [map canon_atts]. fold (canon_atts atts'). rewrite IH. f_equal. unfold nvalg. cbn [fst snd]. rewrite Hn, Hv.
  f_equal. exact (att_value_choice_independent f' en q c p (snd a) i Hq Hstd).
Qed.

Lemma atts_read_nvalg atts parsed : atts_read atts parsed -> Permutation (map nvalg parsed) (map nvalg (canon_atts atts)).
Proof.
  intros (atts' & HP & HF). rewrite (nvalg_read _ _ HF). apply Permutation_map. unfold canon_atts. apply Permutation_map. exact HP.
Qed.

Lemma declsg_eq (atts : list (str * list avpiece)) :
  flat_map (fun '(a, v) => match split_qname a with
                           | (Some p, l) => if str_eqb p s_xmlns then [(l, av_value f en v)] else []
                           | _ => [] end) atts = declsL (map nvalg atts).
Proof. unfold declsL. rewrite flat_map_map. apply flat_map_ext. intros [a v]. reflexivity. Qed.

Lemma dfltg_eq (atts : list (str * list avpiece)) :
  flat_map (fun '(a, v) => if str_eqb a s_xmlns then [av_value f en v] else []) atts = dfltL (map nvalg atts).
Proof. unfold dfltL. rewrite flat_map_map. apply flat_map_ext. intros [a v]. reflexivity. Qed.

Lemma othersg_eq (atts : list (str * list avpiece)) :
  map nvalg (filter (fun '(a, _) => negb (str_eqb a s_xmlns) &&
                                    match split_qname a with (Some p, _) => negb (str_eqb p s_xmlns) | _ => true end) atts)
  = filter other (map nvalg atts).
Proof. rewrite filter_map_comm. f_equal. apply filter_ext. intros [a v]. reflexivity. Qed.

Lemma ns_tree_elem_eq_g sub scope nm atts et kids :
  let L := map nvalg (atts ++ defaulted_atts sub nm atts) in
  ns_tree f en sub scope (XElem nm atts et kids) =
  andc (guard (g1 nm L) RNsName)
 (andc (guard (g2 L) RNsReserved)
 (andc (guard (g3 nm L (declsL L ++ scope)) RNsPrefix)
 (andc (guard (g4 L (declsL L ++ scope)) RNsDupAttr)
       (allc (ns_tree f en sub (declsL L ++ scope)) kids)))).
Proof.
  intros L. unfold L. cbn [ns_tree]. set (all := atts ++ defaulted_atts sub nm atts).
  rewrite !declsg_eq, !dfltg_eq.
  assert (Hg : forall a b r, a = b -> guard a r = guard b r) by (intros a b r ->; reflexivity).
  apply (f_equal2 andc); [apply Hg|apply (f_equal2 andc); [apply Hg|apply (f_equal2 andc); [apply Hg|apply (f_equal2 andc); [apply Hg|reflexivity]]]].
  - unfold g1. rewrite forallb_map'. reflexivity.
  - unfold g2. f_equal; try (apply forallb_ext2; intros [p u]; reflexivity).
  - unfold g3. f_equal; try (rewrite <- othersg_eq, forallb_map'; apply forallb_ext2; intros [a v]; reflexivity).
  - unfold g4. rewrite <- othersg_eq, map_map.
    match goal with |- _ ?l = _ => change (nodup_pairs l = nodup_pairs (map (fun x => exp_name (declsL (map nvalg all) ++ scope) (nvalg x))
       (filter (fun '(a, _) => negb (str_eqb a s_xmlns) && match split_qname a with (Some p, _) => negb (str_eqb p s_xmlns) | _ => true end) all))) end.
    f_equal. apply map_ext. intros [a v]. reflexivity.
Qed.

Lemma declsL_app L1 L2 : declsL (L1 ++ L2) = declsL L1 ++ declsL L2.
Proof. unfold declsL. apply flat_map_app. Qed.

Lemma scope_ext2 A0 A' D s0 s' : Permutation A0 A' -> NoDup (map fst A0) -> scope_eq s0 s' ->
  scope_eq (declsL (A0 ++ D) ++ s0) (declsL (A' ++ D) ++ s').
Proof.
  intros HP Hnd Hs. rewrite !declsL_app, <- !app_assoc. apply scope_ext; [exact HP|exact Hnd|].
  intros p. rewrite !assoc_app. now rewrite (Hs p).
Qed.

(** ** two internal subsets with the same defaults up to normalized values *)
Variables sub0 sub' : list decl.
Hypothesis Hdef : forall el (atts1 atts2 : list (str * list avpiece)), (forall nm, mem nm (map fst atts1) = mem nm (map fst atts2)) ->
  map nvalg (defaulted_atts sub0 el atts1) = map nvalg (defaulted_atts sub' el atts2).

Lemma ns_tree_ext : forall y s0 s', scope_eq s0 s' -> ns_tree f en sub0 s0 y = ns_tree f en sub' s' y.
Proof.
  apply (V.xcontent_ind2 (fun y => forall s0 s', scope_eq s0 s' -> ns_tree f en sub0 s0 y = ns_tree f en sub' s' y)).
  intros x Hk. destruct x as [c|s|n|nm|s|tg dt|nm atts et kids|nm items]; try (intros; reflexivity).
  - intros s0 s' Hs. rewrite !ns_tree_elem_eq_g. cbv zeta.
    assert (EL : map nvalg (atts ++ defaulted_atts sub0 nm atts) = map nvalg (atts ++ defaulted_atts sub' nm atts)).
    { rewrite !map_app. f_equal. apply Hdef. reflexivity. }
    rewrite EL. set (L := map nvalg (atts ++ defaulted_atts sub' nm atts)).
    assert (Hsc : scope_eq (declsL L ++ s0) (declsL L ++ s')) by (intros p; rewrite !assoc_app; now rewrite (Hs p)).
    rewrite (g3_eq nm L L _ _ (Permutation_refl L) Hsc), (g4_eq L L _ _ (Permutation_refl L) Hsc).
    do 4 f_equal. apply allc_ext_in. eapply Forall_impl; [|exact Hk]. intros y Hy. apply Hy. exact Hsc.
  - intros s0 s' Hs. cbn [ns_tree]. apply allc_ext_in. eapply Forall_impl; [|exact Hk]. intros y Hy. apply Hy. exact Hs.
Qed.

(** ** character data *)
Lemma textlike_checks_g items : Forall textlike items ->
  exists r', mapM (expand f en []) items = inr r' /\ allc (tree_ok f en) r' = None /\ forall sub sc, allc (ns_tree f en sub sc) r' = None.
Proof.
  induction 1 as [|x items Hx _ (r' & E & T & N)]; [exists []; repeat split; reflexivity|].
  assert (exists y, expand f en [] x = inr y /\ tree_ok f en y = None /\ forall sub sc, ns_tree f en sub sc y = None) as (y & Ey & Ty & Ny).
  { destruct Hx as [ch|ch Hch|s|nm ch Hn].
    - eexists. split; [apply expand_leaf; exact I|]. split; intros; reflexivity.
    - eexists. split; [apply expand_leaf; exact I|]. split; [cbn [tree_ok]; rewrite Hch; reflexivity|intros; reflexivity].
    - eexists. split; [apply expand_leaf; exact I|]. split; intros; reflexivity.
    - destruct (predef_expand_g nm (predef_name_is_predef _ _ Hn)) as (its & H1 & H2 & H3). eauto. }
  exists (y :: r'). split; [cbn [mapM]; rewrite Ey, E; reflexivity|]. split; [apply C.allc_cons; assumption|].
  intros sub sc. apply C.allc_cons; [apply Ny|apply N].
Qed.

(** ** the tree *)
Definition checks_to_g (x : anode) : Prop :=
  forall items, reads x items -> forall r0, mapM (expand f en []) (to_x x) = inr r0 -> allc (tree_ok f en) r0 = None ->
  forall s0 s', scope_eq s0 s' -> allc (ns_tree f en sub0 s0) r0 = None ->
  exists r', mapM (expand f en []) items = inr r' /\ allc (tree_ok f en) r' = None /\ allc (ns_tree f en sub' s') r' = None.

Lemma kids_checks_g kids : Forall (fun y => syn_ok y = true -> checks_to_g y) kids -> forallb syn_ok kids = true ->
  forall kitems, reads_list kids kitems -> forall ck, mapM (expand f en []) (flat_map to_x kids) = inr ck -> allc (tree_ok f en) ck = None ->
  forall s0 s', scope_eq s0 s' -> allc (ns_tree f en sub0 s0) ck = None ->
  exists r', mapM (expand f en []) kitems = inr r' /\ allc (tree_ok f en) r' = None /\ allc (ns_tree f en sub' s') r' = None.
Proof.
  induction 1 as [|y t Hy _ IH]; intros Hok kitems Hr ck Hm Ht s0 s' Hs Hn.
  - cbn [reads_list] in Hr. subst kitems. exists []. repeat split; reflexivity.
  - cbn [forallb] in Hok. apply andb_true_iff in Hok. destruct Hok as [Hoy Hot].
    cbn [reads_list] in Hr. destruct Hr as (iy & its & -> & Ry & Rt).
    cbn [flat_map] in Hm. apply V.mapM_app_inv in Hm. destruct Hm as (cy & ct & My & Mt & ->).
    apply V.allc_app_inv in Ht. destruct Ht as [Ty Tt]. apply V.allc_app_inv in Hn. destruct Hn as [Ny Nt].
    destruct (Hy Hoy iy Ry cy My Ty s0 s' Hs Ny) as (ry & E1 & T1 & N1).
    destruct (IH Hot its Rt ct Mt Tt s0 s' Hs Nt) as (rt & E2 & T2 & N2).
    exists (ry ++ rt). split; [apply C.mapM_app; assumption|]. split; apply C.allc_app; assumption.
Qed.

Theorem reads_checks_g : forall x, syn_ok x = true -> checks_to_g x.
Proof.
  induction x as [s|nm|s|t d|nm atts kids IHk] using anode_ind2; intros Hok items Hr r0 Hm Ht s0 s' Hs Hn; cbn [syn_ok] in Hok; cbn [to_x] in Hm.
  - destruct Hr as [Htl _]. destruct (textlike_checks_g items Htl) as (r' & E & T & N). exists r'. auto.
  - cbn [reads] in Hr. subst items. exists r0. split; [exact Hm|]. split; [exact Ht|].
    rewrite <- (allc_ext_in (ns_tree f en sub0 s0) (ns_tree f en sub' s') r0); [exact Hn|].
    apply Forall_forall. intros y _. apply ns_tree_ext. exact Hs.
  - cbn [reads] in Hr. subst items. exists r0. split; [exact Hm|]. split; [exact Ht|]. cbn [mapM] in Hm. rewrite expand_leaf in Hm by exact I. injection Hm as <-. reflexivity.
  - cbn [reads] in Hr. subst items. exists r0. split; [exact Hm|]. split; [exact Ht|]. cbn [mapM] in Hm. rewrite expand_leaf in Hm by exact I. injection Hm as <-. exact Hn.
  - apply andb_true_iff in Hok. destruct Hok as [Hok _]. apply andb_true_iff in Hok. destruct Hok as [Hok Hkids].
    apply andb_true_iff in Hok. destruct Hok as [Hnm Hatts].
    apply reads_elem in Hr. destruct Hr as (parsed & et & kitems & -> & Hrd & Het & Rk).
    fold (canon_atts atts) in Hm.
    apply V.mapM_cons_inv in Hm. destruct Hm as (y & ys & Ey & Eys & ->). cbn [mapM] in Eys. injection Eys as <-.
    rewrite expand_elem_g in Ey. destruct (mapM (expand f en []) (flat_map to_x kids)) as [e|ck] eqn:Ek; [discriminate|]. injection Ey as <-.
    apply V.allc_cons_inv in Ht. destruct Ht as [Ht _]. apply tree_ok_elem_g in Ht. destruct Ht as (_ & Hnd & Hav & Tk).
    apply V.allc_cons_inv in Hn. destruct Hn as [Hn _]. rewrite ns_tree_elem_eq_g in Hn. cbv zeta in Hn.
    apply V.andc_none in Hn. destruct Hn as [G1 Hn]. apply V.andc_none in Hn. destruct Hn as [G2 Hn].
    apply V.andc_none in Hn. destruct Hn as [G3 Hn]. apply V.andc_none in Hn. destruct Hn as [G4 Nk].
    apply V.guard_none in G1. apply V.guard_none in G2. apply V.guard_none in G3. apply V.guard_none in G4.
    assert (Hnames : Permutation (map fst parsed) (map fst (canon_atts atts))).
    { rewrite (atts_read_names atts parsed Hrd). unfold canon_atts. rewrite map_map. reflexivity. }
    assert (ED : map nvalg (defaulted_atts sub0 nm (canon_atts atts)) = map nvalg (defaulted_atts sub' nm parsed)).
    { apply Hdef. intros k. apply mem_perm. symmetry. exact Hnames. }
    set (A0 := map nvalg (canon_atts atts)) in *. set (A' := map nvalg parsed).
    set (DD := map nvalg (defaulted_atts sub' nm parsed)) in *.
    assert (EL0 : map nvalg (canon_atts atts ++ defaulted_atts sub0 nm (canon_atts atts)) = A0 ++ DD) by (rewrite map_app, ED; reflexivity).
    assert (EL' : map nvalg (parsed ++ defaulted_atts sub' nm parsed) = A' ++ DD) by (rewrite map_app; reflexivity).
    rewrite EL0 in *.
    assert (HPA : Permutation A0 A') by (symmetry; apply atts_read_nvalg; exact Hrd).
    assert (HP : Permutation (A0 ++ DD) (A' ++ DD)) by (apply Permutation_app_tail; exact HPA).
    assert (Hfst : map fst (canon_atts atts) = map fst atts) by (unfold canon_atts; rewrite map_map; reflexivity).
    assert (HND : NoDup (map fst A0)).
    { unfold A0. rewrite map_map. change (map (fun x => fst (nvalg x)) (canon_atts atts)) with (map fst (canon_atts atts)).
      apply nodup_names_NoDup. exact Hnd. }
    pose proof (scope_ext2 A0 A' DD s0 s' HPA HND Hs) as Hsc.
    destruct (kids_checks_g kids IHk Hkids kitems Rk ck Ek Tk _ _ Hsc Nk) as (rk & Erk & Trk & Nrk).
    exists [XElem nm parsed et rk]. split; [cbn [mapM]; rewrite expand_elem_g, Erk; reflexivity|]. split.
    + apply C.allc_cons; [|reflexivity]. cbn [tree_ok].
      assert (E1 : match et with Some e => str_eqb e nm | None => true end = true).
      { destruct Het as [->|[-> _]]; [apply C.Wstr_eqb_refl|reflexivity]. }
      assert (E2 : nodup_names (map fst parsed) = true).
      { apply nodup_names_NoDup. eapply Permutation_NoDup; [symmetry; apply atts_read_names; exact Hrd|]. rewrite <- Hfst. apply nodup_names_NoDup. exact Hnd. }
      rewrite E1, E2. cbn [guard andc]. rewrite (atts_av_ok_g atts parsed Hatts Hrd Hav). exact Trk.
    + apply C.allc_cons; [|reflexivity]. rewrite ns_tree_elem_eq_g. cbv zeta. rewrite EL'.
      rewrite <- (g1_perm nm _ _ HP), <- (g2_perm _ _ HP), <- (g3_eq nm _ _ _ _ HP Hsc), <- (g4_eq _ _ _ _ HP Hsc), G1, G2, G3, G4.
      exact Nrk.
Qed.
End Gen.
