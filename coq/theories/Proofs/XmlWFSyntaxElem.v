(** * C02, rung 2 (syntax), part 2: attributes, tags, content and elements.

    [syn_element]: every derivation of the production `element` of the regenerated grammar is read
    by [Spec.XmlWF.p_element] with the same rest, and the spec parse tree is the translation
    [x_elem] of the typed element the model builds -- by induction on the length of the input
    (any depth, any width).  Names at Name positions (PI targets, entity references) are assumed
    to be Names: [d04_elem] (exclusion of finding D04). *)
From Coq Require Import List NArith Arith Lia Bool.
From XmlRs Require Import Base.CPred Spec.XmlChars Model.Peg Gen.XmlcharGen Gen.GrammarXmlGen Model.ParseActions Model.Info Model.Display
     Proofs.XmlcharProofs Proofs.PegTermination Proofs.PegLemmas Proofs.PegInv Proofs.Expansion
     Proofs.DisplayLex Proofs.ActionLemmas Proofs.DisplayElem Proofs.ParseInv Proofs.ParseInvElem Proofs.XmlWFSyntaxLex.
From XmlRs Require Spec.XmlWF.
Import ListNotations.
Local Open Scope N_scope.

Ltac slia := unfold str, char in *; lia.

(** ** translation of elements *)
Definition x_attname (n : att_name) : str :=
  match n with
  | AnDefaultNamespace => W.s_xmlns
  | AnNamespace s => W.s_xmlns ++ 58 :: s
  | AnQName q => d_qname q
  end.
Definition x_att (a : attribute) : str * list W.avpiece := (x_attname (at_name a), x_av (at_value a)).
Definition x_text (o : option str) : list W.xcontent := match o with Some t => map W.XChar t | None => [] end.

Section X.
Variable rec : element -> W.xcontent.
Definition x_contents (c : contents) : W.xcontent :=
  match c with
  | CsElement e => rec e
  | CsReference r => x_refitem r
  | CsCData s => W.XCData s
  | CsPI p => x_pi p
  | CsComment s => W.XComment s
  end.
Fixpoint x_cells (l : list cell) : list W.xcontent :=
  match l with
  | [] => []
  | (c, tl) :: l' => x_contents c :: x_text tl ++ x_cells l'
  end.
End X.

Fixpoint x_elem (e : element) : W.xcontent :=
  match e with
  | Element n attrs c =>
    W.XElem (d_qname n) (map x_att attrs)
            (match c with None => None | Some _ => Some (d_qname n) end)
            (match c with None => [] | Some (h, cells) => x_text h ++ x_cells x_elem cells end)
  end.
Definition x_content (c : content) : list W.xcontent := x_text (fst c) ++ x_cells x_elem (snd c).

(** ** exclusion of D04 inside elements *)
Definition d04_att (a : attribute) : bool := d04_av (at_value a).
Section D.
Variable rec : element -> bool.
Definition d04_contents (c : contents) : bool :=
  match c with
  | CsElement e => rec e
  | CsReference r => d04_ref r
  | CsPI p => d04_pi p
  | _ => true
  end.
Fixpoint d04_cells (l : list cell) : bool :=
  match l with [] => true | (c, _) :: l' => d04_contents c && d04_cells l' end.
End D.
Fixpoint d04_elem (e : element) : bool :=
  match e with
  | Element _ attrs c =>
    forallb d04_att attrs && match c with None => true | Some (_, cells) => d04_cells d04_elem cells end
  end.

(** ** attributes *)
Lemma is_Name_app (a b : str) : is_Name a = true -> forallb (eval spec_NameChar) b = true -> is_Name (a ++ b) = true.
Proof.
  destruct a as [|c a]; [discriminate|]. cbn [is_Name app]. intros H Hb. apply andb_prop in H. destruct H as [Hc Ha].
  apply andb_true_intro. split; [exact Hc|]. rewrite forallb_app. apply andb_true_intro. split; assumption.
Qed.

Lemma xmlns_colon_name (n : str) : ncname_ok n -> is_Name (W.s_xmlns ++ 58 :: n) = true.
Proof.
  intros H. apply ncname_name_chars in H. change (W.s_xmlns ++ 58 :: n) with ([120;109;108;110;115;58] ++ n).
  apply is_Name_app; [reflexivity|exact H].
Qed.

Lemma p_Name_first s n r : W.p_Name s = Some (n, r) -> exists c s0, s = c :: s0 /\ eval spec_NameStartChar c = true.
Proof.
  unfold W.p_Name. destruct s as [|c s0]; [discriminate|]. destruct (eval spec_NameStartChar c) eqn:E; [|discriminate].
  intros _. eauto.
Qed.

Lemma syn_attribute s t r : S (NT nt_attribute) s t r ->
  exists a, eval_tree t = VAttribute a /\
    (d04_att a = true -> forall fuel, (length s < fuel)%nat ->
       exists r1 r2, W.p_Name s = Some (x_attname (at_name a), r1) /\ W.p_Eq r1 = Some r2
                     /\ W.p_AttValue fuel r2 = Some (x_av (at_value a), r) /\ (length r2 <= length s)%nat).
Proof.
  intros H. inv_nt H body_attribute.
  match goal with H : succ _ (Map _ _) _ _ _ |- _ => inv H end. inv_alt.
  - match goal with H : succ _ (Seq _ _) _ _ _ |- _ => inv H end.
    match goal with H : succ _ (SeqR _ _) _ _ _ |- _ => inv H end.
    match goal with H : succ _ (NT nt_eq) _ _ _ |- _ => pose proof (eq_first _ _ _ H) as Hst; pose proof (succ_suffix _ _ _ _ _ H) as Hsuf2; apply syn_eq in H; rename H into Heq end.
    match goal with H : succ _ (NT nt_att_value) _ _ _ |- _ => apply syn_att_value in H; destruct H as [l [El Hl]] end.
    match goal with H : succ _ (NT nt_ns_att_name) _ _ _ |- _ => pose proof (succ_suffix _ _ _ _ _ H) as Hsuf1; inv_nt H body_ns_att_name end. inv_alt; invs.
    + match goal with H : succ _ (NT nt_ncname) _ _ _ |- _ => apply inv_ncname in H; destruct H as [n [-> [Hn [-> _]]]] end.
      exists (Attribute (AnNamespace n) l). split; [cbn [eval_tree]; rewrite El; apply al_attribute|].
      cbn [d04_att at_name at_value x_attname]. intros Hd fuel Hf. do 2 eexists. split; [|split; [exact Heq|split]].
      * change ([120;109;108;110;115;58] ++ n ++ r1) with ((W.s_xmlns ++ 58 :: n) ++ r1).
        apply p_Name_app; [apply xmlns_colon_name; exact Hn|exact Hst].
      * apply Hl; [exact Hd|]. apply suffix_length in Hsuf1. apply suffix_length in Hsuf2. lia.
      * apply suffix_length in Hsuf1. apply suffix_length in Hsuf2. lia.
    + exists (Attribute AnDefaultNamespace l). split; [cbn [eval_tree]; rewrite El; apply al_attribute|].
      cbn [d04_att at_name at_value x_attname]. intros Hd fuel Hf. do 2 eexists. split; [|split; [exact Heq|split]].
      * apply p_Name_app; [reflexivity|exact Hst].
      * apply Hl; [exact Hd|]. apply suffix_length in Hsuf1. apply suffix_length in Hsuf2. lia.
      * apply suffix_length in Hsuf1. apply suffix_length in Hsuf2. lia.
  - match goal with H : succ _ (Seq _ _) _ _ _ |- _ => inv H end.
    match goal with H : succ _ (SeqR _ _) _ _ _ |- _ => inv H end.
    match goal with H : succ _ (Map _ _) _ _ _ |- _ => inv H end.
    match goal with H : succ _ (NT nt_eq) _ _ _ |- _ => pose proof (eq_first _ _ _ H) as Hst; pose proof (succ_suffix _ _ _ _ _ H) as Hsuf2; apply syn_eq in H; rename H into Heq end.
    match goal with H : succ _ (NT nt_att_value) _ _ _ |- _ => apply syn_att_value in H; destruct H as [l [El Hl]] end.
    match goal with H : succ _ (NT nt_qname) _ _ _ |- _ => pose proof (succ_suffix _ _ _ _ _ H) as Hsuf1; apply syn_qname in H; [|exact Hst]; destruct H as [q [-> [Hq [Es Hp]]]] end.
    exists (Attribute (AnQName q) l). split; [cbn [eval_tree]; rewrite eval_tree_qname, El; apply al_attribute|].
    cbn [d04_att at_name at_value x_attname]. intros Hd fuel Hf. do 2 eexists. split; [exact Hp|split; [exact Heq|split]].
    * apply Hl; [exact Hd|]. apply suffix_length in Hsuf1. apply suffix_length in Hsuf2. lia.
    * apply suffix_length in Hsuf1. apply suffix_length in Hsuf2. lia.
Qed.

(** ** the attribute list and the end of a tag *)
Definition tag_end (r : str) (e : bool) (rest : str) : Prop :=
  exists a : str, forallb (eval ws) a = true /\ r = a ++ (if e then 47 :: 62 :: rest else 62 :: rest).

Lemma tag_end_stops_name r e rest : tag_end r e rest -> stops (eval is_name_char) r.
Proof.
  intros [a [Ha ->]]. destruct a as [|c a]; cbn [app]; [destruct e; reflexivity|].
  cbn [forallb] in Ha. apply andb_prop in Ha. destruct Ha as [Hc _]. cbn [stops].
  revert Hc. apply (disj_sound ws is_name_char). vm_compute. reflexivity.
Qed.

Lemma name_start_not_ws' c : eval spec_NameStartChar c = true -> eval ws c = false.
Proof. apply (disj_sound spec_NameStartChar ws). vm_compute. reflexivity. Qed.

Lemma p_atts_end fuel r e rest : tag_end r e rest -> (0 < fuel)%nat -> W.p_atts fuel r = Some ([], e, rest).
Proof.
  intros [a [Ha ->]] Hf. destruct fuel as [|fuel]; [lia|]. cbn [W.p_atts].
  rewrite (skipS_app a _ Ha) by (destruct e; reflexivity). destruct e; reflexivity.
Qed.

Lemma syn_attrs s ts r : SM attr_item s ts r ->
  exists l, map eval_tree ts = map VAttribute l /\
    (s = r \/ exists c s0, s = c :: s0 /\ eval ws c = true) /\
    (forallb d04_att l = true -> forall fuel e rest, (length s < fuel)%nat -> tag_end r e rest ->
       W.p_atts fuel s = Some (map x_att l, e, rest)).
Proof.
  intros H. remember attr_item as ex eqn:Ee. induction H as [ex s|ex s t r1 ts r Hs Hlt Hm IH]; subst ex.
  - exists []. split; [reflexivity|]. split; [left; reflexivity|]. intros _ fuel e rest Hf He. apply p_atts_end; [exact He|lia].
  - destruct (IH eq_refl) as [l [El [_ Hl]]]. unfold attr_item in Hs. inv Hs.
    match goal with H : succ _ (Chars1 ws) _ _ _ |- _ => apply inv_ws1 in H; destruct H as [a [-> [Hne [Ha [Hr _]]]]] end.
    match goal with H : succ _ (NT nt_attribute) _ _ _ |- _ => apply syn_attribute in H; destruct H as [at0 [Ea Hat]] end.
    exists (at0 :: l). split; [cbn [map]; rewrite Ea, El; reflexivity|]. split.
    { right. destruct a as [|c a]; [contradiction|]. cbn [forallb] in Ha. apply andb_prop in Ha. cbn [app]. exists c. eexists. split; [reflexivity|tauto]. }
    cbn [forallb]. intros Hd fuel e rest Hf He. apply andb_prop in Hd. destruct Hd as [Hd0 Hd].
    destruct fuel as [|fuel]; [lia|]. rewrite app_length in Hf.
    destruct (Hat Hd0 fuel) as [r2 [r3 [E1 [E2 [E3 Hlen]]]]]; [destruct a; [contradiction|cbn [length] in Hf; lia]|].
    destruct (p_Name_first _ _ _ E1) as [c [s0 [Es Hc]]].
    cbn [W.p_atts]. rewrite (skipS_app a r0 Ha Hr). rewrite Es.
    assert ((c =? W.c_gt) = false) as -> by (destruct (N.eqb_spec c W.c_gt) as [->|]; [vm_compute in Hc; discriminate|reflexivity]).
    assert ((c =? W.c_slash) = false) as -> by (destruct (N.eqb_spec c W.c_slash) as [->|]; [vm_compute in Hc; discriminate|reflexivity]).
    rewrite <- Es. rewrite (p_S_app a r0 Hne Ha Hr). rewrite E1. cbn [W.bind]. rewrite E2. cbn [W.bind]. rewrite E3. cbn [W.bind].
    cbn [length] in Hlt. rewrite app_length in Hlt.
    rewrite (Hl Hd fuel e rest) by (try exact He; lia). reflexivity.
Qed.

Lemma syn_tag s t r t2 r' (e : bool) :
  S (Seq (NT nt_qname) (Many0 attr_item)) s t r ->
  S (Seq (Chars0 ws) (Tag (if e then [47;62] else [62]))) r t2 r' ->
  exists q l ta, t = TPair (tree_qname q) ta /\ eval_tree t = VPair (VQName q) (VList (map VAttribute l)) /\ qname_ok q /\
    (forallb d04_att l = true -> forall fuel, (length s < fuel)%nat ->
       W.p_tag fuel s = Some (d_qname q, map x_att l, e, r')).
Proof.
  intros H H2. inv H.
  match goal with H : succ _ (Many0 _) _ _ _ |- _ => inv H end.
  assert (tag_end r e r') as He.
  { inv H2. match goal with H : succ _ (Chars0 ws) _ _ _ |- _ => apply inv_ws0 in H; destruct H as [a [-> [Ha _]]] end.
    match goal with H : succ _ (Tag _) _ _ _ |- _ => inv H end. exists a. split; [exact Ha|]. destruct e; reflexivity. }
  match goal with H : succ_many _ attr_item _ _ _ |- _ => apply syn_attrs in H; destruct H as [l [El [Hfirst Hl]]] end.
  match goal with H : succ _ (NT nt_qname) _ _ _ |- _ => pose proof (succ_suffix _ _ _ _ _ H) as Hsuf; apply syn_qname in H end.
  - destruct H3 as [q [-> [Hq [Es Hp]]]]. exists q, l. eexists. split; [reflexivity|]. split; [cbn [eval_tree]; rewrite eval_tree_qname, El; reflexivity|].
    split; [exact Hq|]. intros Hd fuel Hf. unfold W.p_tag. rewrite Hp. cbn [W.bind].
    apply suffix_length in Hsuf. rewrite (Hl Hd fuel e r') by (try exact He; lia). reflexivity.
  - destruct Hfirst as [->|[c [s0 [-> Hc]]]]; [eapply tag_end_stops_name; exact He|].
    cbn [stops]. revert Hc. apply (disj_sound ws is_name_char). vm_compute. reflexivity.
Qed.

(** ** [14] CharData inside [43] content *)
Definition next_ok (r : str) : Prop := match r with [] => True | c :: _ => c = 60 \/ c = 38 end.

Lemma inv_take_until_dec (p : cpred) pat s t r : pat <> [] -> S (TakeUntil (Chars0 p) pat) s t r ->
  exists x : str, t = TStr x /\ s = x ++ r /\ forallb (eval p) x = true /\ find_sub pat x = None.
Proof.
  intros Hp H. inv H; invs.
  - match goal with H : ?v ++ ?r = ?a ++ ?r |- _ => apply app_inv_tail in H; subst v end.
    eexists. split; [reflexivity|]. repeat split; assumption.
  - match goal with H : ?v ++ ?r = ?a ++ ?r |- _ => apply app_inv_tail in H; subst v end.
    match goal with H : find_sub pat ?a = Some ?i |- _ => pose proof (find_sub_le _ _ _ H) as Hle; pose proof (find_sub_firstn pat Hp _ _ H) as Hno end.
    eexists. split; [reflexivity|]. split; [symmetry; apply firstn_skipn|].
    rewrite firstn_app_le by exact Hle. split; [apply forallb_firstn; assumption|exact Hno].
Qed.

Lemma cd_class c : eval (is_char_except [60;38]) c = true -> W.isChar c = true /\ (c =? 60) = false /\ (c =? 38) = false.
Proof.
  rewrite is_char_except_equiv. cbn [existsb]. rewrite orb_false_r, !negb_orb. intros H.
  apply andb_prop in H. destruct H as [H1 H]. apply andb_prop in H. destruct H as [H2 H3].
  rewrite negb_true_iff in *. repeat split; assumption.
Qed.

Lemma content_text (x r : str) : forallb (eval (is_char_except [60;38])) x = true -> find_sub [93;93;62] x = None -> next_ok r ->
  forall fuel, (length x <= fuel)%nat ->
  W.p_content fuel (x ++ r) = W.bind (W.p_content (fuel - length x) r) (fun y => Some (map W.XChar x ++ fst y, snd y)).
Proof.
  intros Hx Hf Hr. induction x as [|c x IH]; intros fuel Hl.
  - cbn [app length map]. rewrite Nat.sub_0_r. destruct (W.p_content fuel r) as [[l rest]|]; reflexivity.
  - cbn [forallb] in Hx. apply andb_prop in Hx. destruct Hx as [Hc Hx]. cbn [length] in Hl. destruct fuel as [|fuel]; [lia|].
    destruct (cd_class c Hc) as [H1 [H2 H3]].
    assert (W.starts W.s_cdata_close ((c :: x) ++ r) = false) as Hst.
    { unfold W.starts. rewrite Wstrip_same. change W.s_cdata_close with [93;93;62].
      assert (prefix [93;93;62] ((c :: x) ++ r) = None) as E; [|rewrite E; reflexivity].
      apply (prefix_app_none (fun c => negb (c =? 60) && negb (c =? 38))); [reflexivity| |].
      - destruct r as [|c0 r]; [exact I|]. cbn [stops next_ok] in *. destruct Hr as [->| ->]; reflexivity.
      - apply find_sub_none_prefix. exact Hf. }
    cbn [app] in Hst. cbn [app length Nat.sub W.p_content]. unfold W.c_lt, W.c_amp. rewrite H2, H3, H1, Hst. cbn [negb andb].
    rewrite (IH Hx (find_sub_none_tail _ _ _ Hf) fuel ltac:(lia)).
    destruct (W.p_content (fuel - length x) r) as [[l rest]|]; reflexivity.
Qed.

Lemma syn_text s t r : S (Opt (NT nt_char_data)) s t r -> next_ok r ->
  exists o : option str, eval_tree t = (match o with Some x => VSome (VStr x) | None => VNone end) /\
    (length r <= length s)%nat /\
    forall fuel, (length s - length r <= fuel)%nat ->
      W.p_content fuel s = W.bind (W.p_content (fuel - (length s - length r)) r) (fun y => Some (x_text o ++ fst y, snd y)).
Proof.
  intros H Hr. inv H.
  - match goal with H : succ _ (NT nt_char_data) _ _ _ |- _ => inv_nt H body_char_data end. unfold xc_char_except0 in *.
    match goal with H : succ _ (TakeUntil _ _) _ _ _ |- _ => apply inv_take_until_dec in H; [|discriminate]; destruct H as [x [-> [-> [Hx1 Hx2]]]] end.
    exists (Some x). split; [reflexivity|]. rewrite app_length. split; [lia|]. intros fuel Hf.
    replace (length x + length r - length r)%nat with (length x) in * by lia.
    apply content_text; assumption.
  - exists None. split; [reflexivity|]. split; [lia|]. intros fuel _. rewrite Nat.sub_diag, Nat.sub_0_r.
    cbn [x_text app]. destruct (W.p_content fuel r) as [[l rest]|]; reflexivity.
Qed.

(** ** every child of content consumes at least one character *)
Lemma seqr_tag_lt c a e s t r : S (SeqR (Tag (c :: a)) e) s t r -> (length r < length s)%nat.
Proof.
  intros H. inv H. match goal with H : succ _ (Tag _) _ _ _ |- _ => inv H end.
  match goal with H : succ _ e _ _ _ |- _ => apply succ_suffix in H; apply suffix_length in H end.
  cbn [app length]. rewrite app_length. lia.
Qed.
Lemma map_seqr_tag_lt l c a e s t r : S (Map l (SeqR (Tag (c :: a)) e)) s t r -> (length r < length s)%nat.
Proof. intros H. inv H. eapply seqr_tag_lt. eassumption. Qed.

Lemma reference_lt s t r : S (NT nt_reference) s t r -> (length r < length s)%nat.
Proof.
  intros H. inv_nt H body_reference. inv_alt.
  - match goal with H : succ _ (NT nt_entity_ref) _ _ _ |- _ => inv_nt H body_entity_ref end. eapply map_seqr_tag_lt. eassumption.
  - match goal with H : succ _ (NT nt_char_ref) _ _ _ |- _ => inv_nt H body_char_ref end. inv_alt; eapply map_seqr_tag_lt; eassumption.
Qed.
Lemma cdsect_lt s t r : S (NT nt_cdsect) s t r -> (length r < length s)%nat.
Proof. intros H. inv_nt H body_cdsect. eapply map_seqr_tag_lt. eassumption. Qed.
Lemma pi_lt s t r : S (NT nt_pi) s t r -> (length r < length s)%nat.
Proof. intros H. inv_nt H body_pi. eapply map_seqr_tag_lt. eassumption. Qed.
Lemma comment_lt s t r : S (NT nt_comment) s t r -> (length r < length s)%nat.
Proof. intros H. inv_nt H body_comment. eapply map_seqr_tag_lt. eassumption. Qed.

(** ** how [43] content dispatches on the first characters *)
Definition cont (f : nat) (x : option (W.xcontent * str)) : option (list W.xcontent * str) :=
  W.bind x (fun '(x, r) => W.bind (W.p_content f r) (fun '(l, rest) => Some (x :: l, rest))).

Lemma cont_some f x r : cont f (Some (x, r)) = W.bind (W.p_content f r) (fun y => Some (x :: fst y, snd y)).
Proof. unfold cont. cbn [W.bind]. destruct (W.p_content f r) as [[l rest]|]; reflexivity. Qed.

Lemma content_comment f s' : W.p_content (Datatypes.S f) (W.s_comment_open ++ s') =
  cont f (W.bind (W.p_comment_body s') (fun '(b, r) => Some (W.XComment b, r))).
Proof. reflexivity. Qed.
Lemma content_cdata f s' : W.p_content (Datatypes.S f) (W.s_cdata_open ++ s') =
  cont f (W.bind (W.scan_to W.s_cdata_close s') (fun '(b, r) => Some (W.XCData b, r))).
Proof. reflexivity. Qed.
Lemma content_pi f s' : W.p_content (Datatypes.S f) (W.s_pi_open ++ s') =
  cont f (W.bind (W.p_pi_body s') (fun '(tg, d, r) => Some (W.XPI tg d, r))).
Proof. reflexivity. Qed.
Lemma content_ref f s' : W.p_content (Datatypes.S f) (38 :: s') =
  W.bind (W.p_ref s') (fun '(rf, r) => W.bind (W.p_content f r) (fun '(l, rest) =>
     Some ((match rf with W.RChar n => W.XCharRef n | W.REnt nm => W.XEntRef nm end) :: l, rest))).
Proof. reflexivity. Qed.
Lemma content_elem f c2 s0 : eval spec_NameStartChar c2 = true ->
  W.p_content (Datatypes.S f) (60 :: c2 :: s0) = cont f (W.p_element_with (W.p_content f) f (c2 :: s0)).
Proof.
  intros Hc.
  assert ((47 =? c2) = false) as E1 by (destruct (N.eqb_spec 47 c2) as [<-|]; [vm_compute in Hc; discriminate|reflexivity]).
  assert ((33 =? c2) = false) as E2 by (destruct (N.eqb_spec 33 c2) as [<-|]; [vm_compute in Hc; discriminate|reflexivity]).
  assert ((63 =? c2) = false) as E3 by (destruct (N.eqb_spec 63 c2) as [<-|]; [vm_compute in Hc; discriminate|reflexivity]).
  cbn [W.p_content]. change (60 =? W.c_lt) with true. cbv iota.
  unfold W.starts, W.s_etag_open, W.s_comment_open, W.s_cdata_open, W.s_pi_open. cbn [W.strip].
  change (60 =? 60) with true. cbv iota. rewrite E1, E2, E3. reflexivity.
Qed.
Lemma content_end_tag f s' : W.p_content (Datatypes.S f) (W.s_etag_open ++ s') = Some ([], W.s_etag_open ++ s').
Proof. reflexivity. Qed.

Lemma p_element_with_first pc f s x : W.p_element_with pc f s = Some x -> exists c s0, s = c :: s0 /\ eval spec_NameStartChar c = true.
Proof.
  unfold W.p_element_with, W.p_tag. destruct (W.p_Name s) as [[nm r]|] eqn:E; [|discriminate]. intros _. eapply p_Name_first. exact E.
Qed.

(** ** content and elements, by induction on the length of the input *)
Definition elem_syn (L : nat) : Prop :=
  forall s t r, (length s <= L)%nat -> S (NT nt_element) s t r ->
  exists e s', eval_tree t = VElement e /\ s = 60 :: s' /\ (length r <= length s')%nat /\
    (d04_elem e = true -> forall f, (length s' < f)%nat -> W.p_element_with (W.p_content f) f s' = Some (x_elem e, r)).

Lemma syn_child (L : nat) : elem_syn L -> forall s t r1, (length s <= L)%nat -> S child_alt s t r1 ->
  exists c, eval_tree t = VContents c /\ next_ok s /\ (length r1 < length s)%nat /\
    (d04_contents d04_elem c = true -> forall f, (length s <= f)%nat ->
       W.p_content (Datatypes.S f) s = W.bind (W.p_content f r1) (fun y => Some (x_contents x_elem c :: fst y, snd y))).
Proof.
  intros IH s t r1 Hlen H. unfold child_alt in H. repeat (inv_alt; invs).
  - match goal with H : succ _ (NT nt_element) _ _ _ |- _ => destruct (IH _ _ _ Hlen H) as [e [s' [Ee [-> [Hl He]]]]] end.
    exists (CsElement e). split; [cbn [eval_tree]; rewrite Ee; reflexivity|]. split; [left; reflexivity|].
    cbn [d04_contents x_contents length] in *. split; [unfold str, char in *; lia|]. intros Hd f Hf.
    specialize (He Hd f ltac:(unfold str, char in *; lia)). destruct (p_element_with_first _ _ _ _ He) as [c2 [s0 [-> Hc2]]].
    pose proof (content_elem f c2 s0 Hc2) as E. unfold str, char in *. rewrite E, He. apply cont_some.
  - match goal with H : succ _ (NT nt_reference) _ _ _ |- _ => pose proof (reference_lt _ _ _ H) as Hlt; apply syn_reference in H; destruct H as [x [Ex [Hx [s' [-> Hp]]]]] end.
    exists (CsReference x). split; [cbn [eval_tree]; rewrite Ex; reflexivity|]. split; [right; reflexivity|]. split; [exact Hlt|].
    cbn [d04_contents x_contents]. intros Hd f Hf. rewrite content_ref, (Hp Hd). cbn [W.bind]. unfold x_refitem.
    destruct (W.p_content f r1) as [[l rest]|]; reflexivity.
  - match goal with H : succ _ (NT nt_cdsect) _ _ _ |- _ => pose proof (cdsect_lt _ _ _ H) as Hlt; apply syn_cdsect in H; destruct H as [x [s' [Ex [-> Hp]]]] end.
    exists (CsCData x). split; [cbn [eval_tree]; rewrite Ex; reflexivity|]. split; [left; reflexivity|]. split; [exact Hlt|].
    cbn [d04_contents x_contents]. intros _ f Hf. rewrite content_cdata, Hp. apply cont_some.
  - match goal with H : succ _ (NT nt_pi) _ _ _ |- _ => pose proof (pi_lt _ _ _ H) as Hlt; apply syn_pi in H; destruct H as [x [s' [Ex [-> Hp]]]] end.
    exists (CsPI x). split; [cbn [eval_tree]; rewrite Ex; reflexivity|]. split; [left; reflexivity|]. split; [exact Hlt|].
    cbn [d04_contents x_contents]. intros Hd f Hf. rewrite content_pi, (Hp Hd). apply cont_some.
  - match goal with H : succ _ (NT nt_comment) _ _ _ |- _ => pose proof (comment_lt _ _ _ H) as Hlt; apply syn_comment in H; destruct H as [x [s' [Ex [-> Hp]]]] end.
    exists (CsComment x). split; [cbn [eval_tree]; rewrite Ex; reflexivity|]. split; [left; reflexivity|]. split; [exact Hlt|].
    cbn [d04_contents x_contents]. intros _ f Hf. rewrite content_comment, Hp. apply cont_some.
Qed.

Definition follow_content (r : str) : Prop := r = [] \/ exists r', r = W.s_etag_open ++ r'.

Lemma content_stop f r : follow_content r -> W.p_content (Datatypes.S f) r = Some ([], r).
Proof. intros [->|[r' ->]]; [reflexivity|apply content_end_tag]. Qed.

Lemma follow_next r : follow_content r -> next_ok r.
Proof. intros [->|[r' ->]]; [exact I|left; reflexivity]. Qed.

Lemma syn_cells (L : nat) : elem_syn L -> forall s ts r, (length s <= L)%nat -> SM cell_expr s ts r -> follow_content r ->
  exists cs : list cell, all_some (map as_cell (map eval_tree ts)) = Some cs /\ next_ok s /\
    (d04_cells d04_elem cs = true -> forall fuel, (length s < fuel)%nat -> W.p_content fuel s = Some (x_cells x_elem cs, r)).
Proof.
  intros IH s ts r Hlen H Hfol. remember cell_expr as ex eqn:Ee. revert Hlen.
  induction H as [ex s|ex s t r1 ts r Hs Hlt Hm IHm]; intros Hlen; subst ex.
  - exists []. split; [reflexivity|]. split; [apply follow_next; exact Hfol|]. intros _ fuel Hf.
    destruct fuel as [|fuel]; [lia|]. apply content_stop. exact Hfol.
  - destruct (IHm eq_refl Hfol) as [cs [Ecs [Hn1 Hl]]]; [lia|]. unfold cell_expr in Hs. inv Hs.
    match goal with H : succ _ child_alt _ _ _ |- _ => destruct (syn_child L IH _ _ _ Hlen H) as [c [Ec [Hn0 [Hlt0 Hc]]]] end.
    match goal with H : succ _ (Opt (NT nt_char_data)) _ _ _ |- _ => destruct (syn_text _ _ _ H Hn1) as [o [Eo [Hle Ht]]] end.
    exists ((c, o) :: cs). split; [|split; [exact Hn0|]].
    { cbn [map eval_tree all_some]. rewrite Ec, Eo, as_cell_opt, Ecs. reflexivity. }
    cbn [d04_cells x_cells]. intros Hd fuel Hf. apply andb_prop in Hd. destruct Hd as [Hdc Hdcs].
    destruct fuel as [|f]; [lia|].
    rewrite (Hc Hdc f) by lia. rewrite (Ht f) by lia. rewrite (Hl Hdcs) by lia. reflexivity.
Qed.

Lemma syn_content (L : nat) : elem_syn L -> forall s t r, (length s <= L)%nat -> S (NT nt_content) s t r -> follow_content r ->
  exists c : content, eval_tree t = VContent c /\
    (d04_cells d04_elem (snd c) = true -> forall fuel, (length s < fuel)%nat -> W.p_content fuel s = Some (x_content c, r)).
Proof.
  intros IH s t r Hlen H Hfol. inv_nt H body_content. fold cell_expr in *.
  match goal with H : succ _ (Map _ _) _ _ _ |- _ => inv H end.
  match goal with H : succ _ (Seq _ _) _ _ _ |- _ => inv H end.
  match goal with H : succ _ (Many0 _) _ _ _ |- _ => inv H end.
  match goal with H : succ _ (Opt (NT nt_char_data)) _ _ _ |- _ => pose proof (succ_suffix _ _ _ _ _ H) as Hsuf; rename H into Hopt end.
  match goal with H : succ_many _ cell_expr _ _ _ |- _ =>
    destruct (syn_cells L IH _ _ _ (Nat.le_trans _ _ _ (suffix_length _ _ Hsuf) Hlen) H Hfol) as [cs [Ecs [Hn1 Hcs]]] end.
  destruct (syn_text _ _ _ Hopt Hn1) as [o [Eo [Hle Ht]]].
  exists (o, cs). split.
  - cbn [eval_tree]. rewrite Eo.
    change (apply_label L_closure_11e3fda0 (VPair (match o with Some x => VSome (VStr x) | None => VNone end) (VList (map eval_tree ts))))
      with (match as_opt as_str (match o with Some x => VSome (VStr x) | None => VNone end), as_list as_cell (VList (map eval_tree ts)) with
            | Some h', Some c' => VContent (h', c') | _, _ => VBad end).
    cbn [as_list]. rewrite Ecs. destruct o; reflexivity.
  - cbn [snd]. intros Hd fuel Hf. rewrite (Ht fuel) by lia. rewrite (Hcs Hd) by lia. reflexivity.
Qed.

Lemma tree_qname_inj q q' : tree_eqb (tree_qname q) (tree_qname q') = true -> q = q'.
Proof.
  destruct q as [p l|n], q' as [p' l'|n']; cbn [tree_qname tree_eqb]; intros H;
    repeat match goal with H : _ && _ = true |- _ => apply andb_prop in H; destruct H end; try discriminate.
  - repeat match goal with H : str_eqb _ _ = true |- _ => apply str_eqb_eq in H end. subst. reflexivity.
  - repeat match goal with H : str_eqb _ _ = true |- _ => apply str_eqb_eq in H end. subst. reflexivity.
Qed.

Theorem syn_element : forall L, elem_syn L.
Proof.
  induction L as [|L IH]; intros s t r Hlen H.
  - destruct s; [|cbn in Hlen; lia]. exfalso. inv_nt H body_element. inv_alt.
    + match goal with H : succ _ (NT nt_empty_entity_tag) _ _ _ |- _ => inv_nt H body_empty_tag end. invs.
      match goal with H : [] = _ ++ _ |- _ => discriminate H end.
    + invs. match goal with H : succ _ (NT nt_stag) _ _ _ |- _ => inv_nt H body_stag end. invs.
      match goal with H : [] = _ ++ _ |- _ => discriminate H end.
  - inv_nt H body_element. inv_alt.
    + (* <q attrs/> *)
      match goal with H : succ _ (NT nt_empty_entity_tag) _ _ _ |- _ => inv_nt H body_empty_tag end. fold attr_item in *.
      match goal with H : succ _ (Map _ _) _ _ _ |- _ => inv H end.
      match goal with H : succ _ (SeqR _ _) _ _ _ |- _ => inv H end.
      match goal with H : succ _ (SeqL _ _) _ _ _ |- _ => inv H end.
      match goal with H : succ _ (Tag [60]) _ _ _ |- _ => inv H end.
      match goal with H1 : succ _ (Seq (NT nt_qname) _) _ _ _, H2 : succ _ (Seq (Chars0 ws) _) _ _ _ |- _ =>
        pose proof (succ_suffix _ _ _ _ _ H1) as Hs1; pose proof (succ_suffix _ _ _ _ _ H2) as Hs2;
        destruct (syn_tag _ _ _ _ _ true H1 H2) as [q [l [ta [-> [Et [Hq Hp]]]]]] end.
      exists (Element q l None). eexists. split; [cbn [eval_tree] in *; rewrite Et; apply al_element|]. split; [reflexivity|].
      apply suffix_length in Hs1. apply suffix_length in Hs2. split; [slia|].
      cbn [d04_elem x_elem]. rewrite andb_true_r. intros Hd f Hf. unfold W.p_element_with. rewrite (Hp Hd f Hf). reflexivity.
    + (* <q attrs>content</q> *)
      match goal with H : succ _ (Map _ _) _ _ _ |- _ => inv H end.
      match goal with H : succ _ (VerifyEq _ _ _) _ _ _ |- _ => inv H end.
      match goal with H : succ _ (Seq (NT nt_stag) _) _ _ _ |- _ => inv H end.
      match goal with H : succ _ (Seq (NT nt_content) _) _ _ _ |- _ => inv H end.
      match goal with H : succ _ (NT nt_stag) _ _ _ |- _ => inv_nt H body_stag end. fold attr_item in *.
      match goal with H : succ _ (Map _ (SeqR (Tag [60]) _)) _ _ _ |- _ => inv H end.
      match goal with H : succ _ (SeqR (Tag [60]) _) _ _ _ |- _ => inv H end.
      match goal with H : succ _ (SeqL _ _) _ _ _ |- _ => inv H end.
      match goal with H : succ _ (Tag [60]) _ _ _ |- _ => inv H end.
      match goal with H1 : succ _ (Seq (NT nt_qname) _) _ _ _, H2 : succ _ (Seq (Chars0 ws) _) _ _ _ |- _ =>
        pose proof (succ_suffix _ _ _ _ _ H1) as Hs1; pose proof (succ_suffix _ _ _ _ _ H2) as Hs2;
        destruct (syn_tag _ _ _ _ _ false H1 H2) as [q [l [ta [-> [Et [Hq Hp]]]]]] end.
      apply suffix_length in Hs1. apply suffix_length in Hs2.
      (* the end tag *)
      match goal with H : succ _ (NT nt_etag) _ _ _ |- _ => pose proof (succ_suffix _ _ _ _ _ H) as Hs4; inv_nt H body_etag end.
      match goal with H : succ _ (SeqR (Tag [60;47]) _) _ _ _ |- _ => inv H end.
      match goal with H : succ _ (SeqL _ _) _ _ _ |- _ => inv H end.
      match goal with H : succ _ (Tag [60;47]) _ _ _ |- _ => inv H end.
      match goal with H : succ _ (Seq (Chars0 ws) (Tag [62])) ?x _ r |- _ =>
        assert (tag_end x false r) as Hend by
          (inv H; match goal with H' : succ _ (Chars0 ws) _ _ _ |- _ => apply inv_ws0 in H'; destruct H' as [a [-> [Ha _]]] end;
           match goal with H' : succ _ (Tag _) _ _ _ |- _ => inv H' end; exists a; split; [exact Ha|reflexivity]) end.
      match goal with H : succ _ (NT nt_qname) _ _ _ |- _ => apply syn_qname in H; [|eapply tag_end_stops_name; exact Hend]; destruct H as [q' [-> [Hq' [-> Hp']]]] end.
      (* start tag = end tag *)
      match goal with H : verify_eq _ _ _ = true |- _ => unfold verify_eq in H; cbn [tget] in H; apply tree_qname_inj in H; subst q' end.
      (* the content *)
      match goal with H : succ _ (NT nt_content) ?rr _ _ |- _ =>
        pose proof (succ_suffix _ _ _ _ _ H) as Hs3;
        assert (length rr <= L)%nat as Hle by (cbn [app length] in Hlen; slia);
        destruct (syn_content L IH _ _ _ Hle H (or_intror (ex_intro _ _ eq_refl))) as [c [Ec Hc]] end.
      apply suffix_length in Hs3. apply suffix_length in Hs4.
      exists (Element q l (Some c)). eexists. split.
      { cbn [eval_tree] in *. rewrite Et, Ec. rewrite al_element. apply al_set_content. }
      split; [reflexivity|]. split; [cbn [app length] in *; slia|].
      destruct c as [h cs]. cbn [d04_elem x_elem snd] in *. intros Hd f Hf. apply andb_prop in Hd. destruct Hd as [Hd1 Hd2].
      unfold W.p_element_with. rewrite (Hp Hd1 f Hf). cbn [W.bind].
      rewrite (Hc Hd2 f) by (slia). cbn [W.bind].
      rewrite Wstrip_app. cbn [W.bind]. unfold W.p_etag. rewrite Hp'. cbn [W.bind].
      destruct Hend as [a [Ha ->]]. rewrite (skipS_app a _ Ha) by reflexivity. reflexivity.
Qed.
