(** * The data facts of Model/DomFacts.v, for every string

      pi_data_fact_spec   pi_data_fact s = if storable_pi s then Some (Some (skip_space s)) else None
                          ("<?t s?>" is a processing instruction iff s holds characters only and no
                          closing delimiter; the white space before the data is the separator)
      value_fact_some     value_fact s = Some l -> l is the list of the pieces of a literal
                          [q s q] of the production att_value: s is their concatenation
      value_fact_of       conversely, every such list is what value_fact returns
      pieces_of_av        DOM specification: [DomL1.pieces] on the concatenation of well-formed
                          pieces reads the pieces back (a character reference that denotes no
                          character, or an entity name that is no Name, makes it answer None)
      av_of_pieces        and whatever [DomL1.pieces] accepts is such a concatenation.

    Method: the two halves of the C04 ladder (Proofs/DisplayLex.v: the production re-parses what is
    written; Proofs/ParseInv.v: a successful run has the shape of the production) connect the run
    of the parser model with lists of typed pieces; two inductions connect those lists with the
    scanner of the specification. *)
From Coq Require Import List NArith Arith Lia Bool.
From XmlRs Require Import Base.CPred Spec.XmlChars Model.Peg Gen.XmlcharGen Gen.GrammarXmlGen Model.ParseActions
  Proofs.XmlcharProofs Proofs.PegTermination Proofs.GrammarTermination Proofs.PegLemmas Proofs.PegInv
  Proofs.NameLanguage Proofs.QNameLanguage Proofs.DisplayLex Proofs.ActionLemmas Proofs.DisplayElem Proofs.ParseInv
  Model.DomFacts Proofs.DomFactsName.
From XmlRs Require Model.Info Model.DomOps Spec.DomCharData Spec.DomL1 Proofs.CharDataProofs.
Import ListNotations.
Local Open Scope N_scope.

(** ** small facts *)
Lemma fails_of_denote f e s : denote G_xml f e s = Fail -> F e s.
Proof.
  intros H. exists f. intros f' Hf. rewrite (denote_mono G_xml f e s) by (rewrite ?H; try discriminate; exact Hf). exact H.
Qed.

Lemma span_unique (f : char -> bool) (a r a' r' : str) :
  forallb f a = true -> stops f r -> forallb f a' = true -> stops f r' -> a ++ r = a' ++ r' -> a = a' /\ r = r'.
Proof.
  intros Ha Hr Ha' Hr' E. pose proof (span_app f a r Ha Hr) as H1. pose proof (span_app f a' r' Ha' Hr') as H2.
  rewrite E in H1. rewrite H1 in H2. injection H2 as -> ->. split; reflexivity.
Qed.

Lemma isChar_is_char c : DomCharData.isChar c = eval is_char c.
Proof. unfold DomCharData.isChar. symmetry. apply is_char_equiv. Qed.

Lemma chars_is_char (d : str) : forallb DomCharData.isChar d = forallb (eval is_char) d.
Proof. apply forallb_ext'. exact isChar_is_char. Qed.

Lemma ws_space c : eval ws c = DomL1.is_space c.
Proof. reflexivity. Qed.

Lemma ws_is_char c : eval ws c = true -> eval is_char c = true.
Proof. intros H. destruct (ws_cases c H) as [->|[->|[->| ->]]]; vm_compute; reflexivity. Qed.

(** ** white space in front of the data of a processing instruction *)
Lemma skip_space_split s : exists w : str,
  s = w ++ DomL1.skip_space s /\ forallb (eval ws) w = true /\ stops (eval ws) (DomL1.skip_space s).
Proof.
  induction s as [|c t [w [E [Hw Hs]]]].
  - exists []. repeat split.
  - cbn [DomL1.skip_space]. rewrite <- ws_space. destruct (eval ws c) eqn:Ec.
    + exists (c :: w). cbn [app forallb]. rewrite Ec, Hw. rewrite <- E. repeat split. exact Hs.
    + exists []. repeat split. exact Ec.
Qed.

(** ** substrings: [contains] of the specification and [find_sub] of the parser model *)
Lemma starts_with_prefix (p : str) : forall s : str, DomCharData.starts_with p s = false <-> prefix p s = None.
Proof.
  induction p as [|a p IH]; intros s; cbn [DomCharData.starts_with prefix]; [split; discriminate|].
  destruct s as [|b s]; [split; reflexivity|]. destruct (N.eqb_spec a b) as [->|]; cbn [andb]; [apply IH | split; reflexivity].
Qed.

Lemma contains_find (p s : str) : DomCharData.contains p s = false <-> find_sub p s = None.
Proof.
  induction s as [|b s IH]; cbn [DomCharData.contains find_sub].
  - rewrite orb_false_r, starts_with_prefix. destruct (prefix p []); split; congruence.
  - rewrite orb_false_iff, starts_with_prefix, IH. destruct (prefix p (b :: s)); [split; [intros [H _]|intros H]; discriminate|].
    destruct (find_sub p s); split; try (intros [_ H]; discriminate H); try discriminate; auto.
Qed.

Lemma contains_ws_prefix (w d : str) : forallb (eval ws) w = true ->
  DomCharData.contains [63; 62] (w ++ d) = DomCharData.contains [63; 62] d.
Proof.
  induction w as [|c w IH]; intros H; [reflexivity|]. cbn [forallb] in H. apply andb_prop in H. destruct H as [Hc Hw].
  cbn [app DomCharData.contains DomCharData.starts_with]. rewrite (IH Hw).
  destruct (ws_cases c Hc) as [->|[->|[->| ->]]]; reflexivity.
Qed.

(** ** processing instruction data: "<?t s?>" *)
Lemma yields_pi_ws (t w d r : str) : pi_target_ok t -> w <> [] -> forallb (eval ws) w = true -> pi_data_ok d ->
  yields (NT nt_pi) ([60; 63] ++ t ++ w ++ d ++ [63; 62] ++ r) (VPI (PI t (Some d))) r.
Proof.
  intros [Ht Hx] Hne Hw [Hd [Hn Hs]]. apply yields_nt. rewrite body_pi.
  apply (yields_map' (VPair (VStr t) (VSome (VStr d)))); [reflexivity|].
  eapply yields_seqr; [apply parses_tag|].
  replace (t ++ w ++ d ++ [63; 62] ++ r) with ((t ++ w ++ d ++ [63; 62]) ++ r) by (rewrite <- !app_assoc; reflexivity).
  eapply yields_seql; [|apply (parses_tag G_xml [63; 62] r)].
  rewrite <- !app_assoc.
  eapply yields_seq.
  - apply yields_str. apply parses_nt. rewrite body_pi_target. apply parses_take_except with (t := TStr t); [|exact Hx].
    apply parses_name; [exact Ht|]. destruct w as [|c w']; [contradiction|]. cbn [app stops].
    cbn [forallb] in Hw. apply andb_prop in Hw. destruct Hw as [Hc _].
    destruct (ws_cases c Hc) as [->|[->|[->| ->]]]; reflexivity.
  - apply yields_opt_some. eapply yields_seqr.
    + apply (parses_chars1 G_xml ws w); [exact Hne | exact Hw|]. apply stops_app; [reflexivity | intros _; exact Hs].
    + apply yields_str. apply parses_until; [exact Hd | reflexivity|]. intros z. apply find_qgt. exact Hn.
Qed.

Lemma inv_pi_target_str s t r : S (NT nt_pi_target) s t r ->
  exists n : str, t = TStr n /\ pi_target_ok n /\ s = n ++ r /\ stops (eval is_name_char) r.
Proof.
  intros H. inv_nt H body_pi_target. invs.
  match goal with H : succ _ (NT nt_name) _ _ _ |- _ => apply inv_name in H; destruct H as [n [_ [Hn [E Hs]]]] end.
  match goal with H : ?v ++ ?r = ?n ++ ?r |- _ => apply app_inv_tail in H; subst v end.
  eexists. split; [reflexivity|]. split; [split; assumption|]. split; [reflexivity | exact Hs].
Qed.

Lemma inv_take_until_mc_str pat s t r : pat <> [] -> S (TakeUntil (NT nt_multichar0) pat) s t r ->
  exists x : str, t = TStr x /\ forallb (eval is_char) x = true /\ find_sub pat x = None /\ s = x ++ r.
Proof.
  intros Hp H. inv H.
  - match goal with H1 : succ _ (NT nt_multichar0) _ _ _ |- _ => apply inv_multichar0 in H1; inv H1 end.
    match goal with H : ?v ++ ?r = ?a ++ ?r |- _ => apply app_inv_tail in H; subst a end.
    eexists. repeat split; try reflexivity; assumption.
  - match goal with H1 : succ _ (NT nt_multichar0) _ _ _ |- _ => apply inv_multichar0 in H1; inv H1 end.
    match goal with H : ?v ++ ?r = ?a ++ ?r |- _ => apply app_inv_tail in H; subst a end.
    match goal with Hf : find_sub pat ?v = Some ?i, Hc : forallb _ ?v = true |- _ =>
      pose proof (find_sub_le _ _ _ Hf) as Hle; exists (firstn i v); split; [rewrite (firstn_app_le i v _ Hle); reflexivity|];
      split; [apply forallb_firstn; exact Hc|]; split; [apply find_sub_firstn; assumption|];
      rewrite <- (firstn_app_le i v r0 Hle); symmetry; apply firstn_skipn end.
Qed.

(** the data a processing instruction with target [tg] stores for the argument [s]
    (XmlProcessingInstruction::set_content: the target is the one of the node; the harness and
    [pi_data_fact] use the target t) *)
Definition pi_data_of (tg s : str) : option (option str) :=
  match whole (parse_pi ([60; 63] ++ tg ++ [32] ++ s ++ [63; 62])) with
  | Some p => Some (pi_value p)
  | None => None
  end.

Theorem pi_data_of_spec : forall tg s, pi_target_ok tg ->
  pi_data_of tg s = if DomL1.storable_pi s then Some (Some (DomL1.skip_space s)) else None.
Proof.
  intros tg s Htg. unfold pi_data_of. destruct (skip_space_split s) as [w [Es [Hw Hs]]].
  set (d := DomL1.skip_space s) in *. clearbody d.
  destruct (DomL1.storable_pi s) eqn:St.
  - unfold DomL1.storable_pi in St. apply andb_prop in St. destruct St as [S1 S2]. apply negb_true_iff in S2.
    assert (Hd : pi_data_ok d).
    { split; [|split; [|exact Hs]].
      - rewrite Es, forallb_app in S1. apply andb_prop in S1. destruct S1 as [_ S1].
        exact (eq_trans (eq_sym (chars_is_char d)) S1).
      - apply contains_find. rewrite Es in S2. unfold DomL1.pi_end in S2. rewrite (contains_ws_prefix w d Hw) in S2. exact S2. }
    assert (Hp : parse_pi ([60; 63] ++ tg ++ [32] ++ s ++ [63; 62]) = POk (PI tg (Some d), [])).
    { apply (parse_with_yields nt_pi _ _ (VPI (PI tg (Some d))) []); [|reflexivity].
      assert (Ei : [60; 63] ++ tg ++ [32] ++ s ++ [63; 62] = [60; 63] ++ tg ++ (32 :: w) ++ d ++ [63; 62] ++ []).
      { rewrite Es. cbn [app]. rewrite <- app_assoc. reflexivity. }
      rewrite Ei. apply (yields_pi_ws tg (32 :: w) d []); [exact Htg | discriminate | cbn [forallb]; apply andb_true_intro; split; [reflexivity | exact Hw] | exact Hd]. }
    rewrite Hp. reflexivity.
  - destruct (whole (parse_pi ([60; 63] ++ tg ++ [32] ++ s ++ [63; 62]))) as [p|] eqn:W; [|reflexivity]. exfalso.
    subst s. apply whole_some in W. apply parse_with_ok in W. destruct W as [t [Hr _]]. apply run_succ in Hr.
    cbn [app] in Hr. destruct Htg as [Htn _]. inv_nt Hr body_pi. invs.
    + (* with data *)
      match goal with H : _ :: _ = [60; 63] ++ _ |- _ => cbn [app] in H; injection H as <- end.
      match goal with H : succ _ (NT nt_pi_target) _ _ _ |- _ => apply inv_pi_target_str in H; destruct H as [n [_ [[Hn _] [En Hsn]]]] end.
      match goal with H : succ _ (TakeUntil _ _) _ _ _ |- _ => apply inv_take_until_mc_str in H; [|discriminate]; destruct H as [x [_ [Hx1 [Hx2 Ex]]]] end.
      (* the target read back is [tg] *)
      destruct (span_unique (eval is_name_char) tg (32 :: (w ++ d) ++ [63; 62]) n (a ++ r0)) as [_ E2];
        [exact Htn | reflexivity | exact Hn | exact Hsn | exact En |].
      (* the separator is the white space in front of [d] *)
      assert (E3 : (32 :: w) ++ d ++ [63; 62] = a ++ r0) by (rewrite <- E2; cbn [app]; rewrite <- app_assoc; reflexivity).
      destruct (span_unique (eval ws) (32 :: w) (d ++ [63; 62]) a r0) as [_ E4];
        [cbn [forallb]; apply andb_true_intro; split; [reflexivity | exact Hw] | apply stops_app; [reflexivity | intros _; exact Hs] | assumption | assumption | exact E3 |].
      rewrite Ex in E4. cbn [app] in E4. apply app_inv_tail in E4. subst x.
      assert (St' : DomL1.storable_pi (w ++ d) = true); [|congruence].
      unfold DomL1.storable_pi. apply andb_true_intro. split.
      * rewrite forallb_app. apply andb_true_intro. split.
        -- apply forallb_forall. intros c Hc. rewrite isChar_is_char. apply ws_is_char. rewrite forallb_forall in Hw. apply Hw. exact Hc.
        -- exact (eq_trans (chars_is_char d) Hx1).
      * apply negb_true_iff. unfold DomL1.pi_end. rewrite (contains_ws_prefix w d Hw). apply contains_find. exact Hx2.
    + (* no separator: impossible, the text goes on with a space *)
      match goal with H : _ :: _ = [60; 63] ++ _ |- _ => cbn [app] in H; injection H as <- end.
      match goal with H : succ _ (NT nt_pi_target) _ _ _ |- _ => apply inv_pi_target_str in H; destruct H as [n [_ [[Hn _] [En Hsn]]]] end.
      destruct (span_unique (eval is_name_char) tg (32 :: (w ++ d) ++ [63; 62]) n ([63; 62] ++ [])) as [_ E2];
        [exact Htn | reflexivity | exact Hn | exact Hsn | exact En |]. discriminate E2.
Qed.

Theorem pi_data_fact_spec : forall s,
  pi_data_fact s = if DomL1.storable_pi s then Some (Some (DomL1.skip_space s)) else None.
Proof. intros s. apply (pi_data_of_spec [116] s). split; reflexivity. Qed.

(** ** attribute values: "a=" and the quoted value *)
Definition quote_of (s : str) : N := if existsb (N.eqb 34) s then 39 else 34.

Lemma quote_of_cases s : quote_of s = 34 \/ quote_of s = 39.
Proof. unfold quote_of. destruct (existsb (N.eqb 34) s); auto. Qed.

Lemma quoted_eq s : quoted s = quote_of s :: s ++ [quote_of s].
Proof. unfold quoted, quote_of. destruct (existsb (N.eqb 34) s); reflexivity. Qed.

Definition attr_a (avl : list att_value) : attribute := Attribute (AnQName (Unprefixed [97])) avl.

(** the name of the attribute an NCName spells *)
Definition name_att (n : str) : att_name :=
  if Peg.str_eqb n Info.s_xmlns then AnDefaultNamespace else AnQName (Unprefixed n).

(** the production attribute on an NCName, [=] and a quote is the production att_value on the rest
    (XmlAttribute::set_values writes the local name of the attribute in front; the harness and
    [value_fact] write the name a) *)
Lemma attr_n_run n q u : ncname_ok n -> q = 34 \/ q = 39 ->
  parse_attribute (n ++ 61 :: q :: u) =
  match run G_xml G_xml_R nt_att_value (q :: u) with
  | Ok (t, r) => match as_list as_attvalue (eval_tree t) with Some avl => POk (Attribute (name_att n) avl, r) | None => PBadTree end
  | Fail => PFail
  | Oof => POof
  end.
Proof.
  intros Hn Hq.
  assert (Hname : P (Map L_model_AttributeName_from (NT nt_qname)) (n ++ 61 :: q :: u)
                    (TMap L_model_AttributeName_from (tree_qname (Unprefixed n))) (61 :: q :: u)).
  { apply parses_map. apply (parses_qname (Unprefixed n) (61 :: q :: u)); [exact Hn | reflexivity]. }
  assert (Heq : P (NT nt_eq) (61 :: q :: u) (TStr [61]) (q :: u)).
  { apply parses_eq. destruct Hq as [-> | ->]; reflexivity. }
  unfold name_att. destruct (Peg.str_eqb n Info.s_xmlns) eqn:Ex.
  - (* the name xmlns: the first alternative reads it *)
    apply Expansion.str_eqb_eq in Ex. subst n.
    assert (Hns : P (NT nt_ns_att_name) (Info.s_xmlns ++ 61 :: q :: u) (TMap L_closure_e50bdeb9 (TStr Info.s_xmlns)) (61 :: q :: u)).
    { apply parses_nt. rewrite body_ns_att_name. apply parses_alt_r.
      - apply fails_map. apply fails_seqr_l. apply fails_tag. reflexivity.
      - apply parses_map. apply parses_tag. }
    destruct (run G_xml G_xml_R nt_att_value (q :: u)) as [[t r]| |] eqn:R.
    + assert (Hv : P (NT nt_att_value) (q :: u) t r) by (eapply parses_of_denote; exact R).
      unfold parse_attribute, parse_with.
      rewrite (run_parses nt_attribute _ (TMap L_model_Attribute_from (TPair (TMap L_closure_e50bdeb9 (TStr Info.s_xmlns)) t)) r).
      * cbn [eval_tree].
        change (apply_label L_model_Attribute_from (VPair (apply_label L_closure_e50bdeb9 (VStr Info.s_xmlns)) (eval_tree t)))
          with (ret (fun a' => VAttribute (Attribute AnDefaultNamespace a')) (as_list as_attvalue (eval_tree t))).
        destruct (as_list as_attvalue (eval_tree t)) as [avl|]; reflexivity.
      * apply parses_nt. rewrite body_attribute. apply parses_map. apply parses_alt_l.
        eapply parses_seq; [exact Hns|]. eapply parses_seqr; [exact Heq | exact Hv].
    + apply parse_with_fails. apply fails_nt. rewrite body_attribute. apply fails_map. apply fails_alt.
      * eapply fails_seq_r; [exact Hns|]. eapply fails_seqr_r; [exact Heq|]. eapply fails_of_denote. exact R.
      * eapply fails_seq_r; [exact Hname|]. eapply fails_seqr_r; [exact Heq|]. eapply fails_of_denote. exact R.
    + exfalso. exact (xml_grammar_terminates _ _ R).
  - assert (Hns : F (Seq (NT nt_ns_att_name) (SeqR (NT nt_eq) (NT nt_att_value))) (n ++ 61 :: q :: u)).
    { apply ns_alt_fails; [exact Hn | | right; reflexivity]. intros ->. rewrite Expansion.str_eqb_refl in Ex. discriminate. }
    destruct (run G_xml G_xml_R nt_att_value (q :: u)) as [[t r]| |] eqn:R.
    + assert (Hv : P (NT nt_att_value) (q :: u) t r) by (eapply parses_of_denote; exact R).
      unfold parse_attribute, parse_with.
      rewrite (run_parses nt_attribute _
                 (TMap L_model_Attribute_from (TPair (TMap L_model_AttributeName_from (tree_qname (Unprefixed n))) t)) r).
      * cbn [eval_tree]. rewrite eval_tree_qname.
        change (apply_label L_model_Attribute_from
                  (VPair (apply_label L_model_AttributeName_from (VQName (Unprefixed n))) (eval_tree t)))
          with (ret (fun a' => VAttribute (Attribute (AnQName (Unprefixed n)) a')) (as_list as_attvalue (eval_tree t))).
        destruct (as_list as_attvalue (eval_tree t)) as [avl|]; reflexivity.
      * apply parses_nt. rewrite body_attribute. apply parses_map. apply parses_alt_r; [exact Hns|].
        eapply parses_seq; [exact Hname|]. eapply parses_seqr; [exact Heq | exact Hv].
    + apply parse_with_fails. apply fails_nt. rewrite body_attribute. apply fails_map. apply fails_alt; [exact Hns|].
      eapply fails_seq_r; [exact Hname|]. eapply fails_seqr_r; [exact Heq|]. eapply fails_of_denote. exact R.
    + exfalso. exact (xml_grammar_terminates _ _ R).
Qed.

Lemma attr_a_run q u : q = 34 \/ q = 39 ->
  parse_attribute ([97; 61] ++ q :: u) =
  match run G_xml G_xml_R nt_att_value (q :: u) with
  | Ok (t, r) => match as_list as_attvalue (eval_tree t) with Some avl => POk (attr_a avl, r) | None => PBadTree end
  | Fail => PFail
  | Oof => POof
  end.
Proof. intros Hq. apply (attr_n_run [97] q u); [split; reflexivity | exact Hq]. Qed.

(** the value items do not depend on the name written in front *)
Definition value_of_name (n s : str) : option (list DomOps.vitem) :=
  match whole (parse_attribute (n ++ [61] ++ quoted s)) with
  | Some a => Some (map vitem_of (at_value a))
  | None => None
  end.

Theorem value_of_name_fact : forall n s, is_NCName n = true -> value_of_name n s = value_fact s.
Proof.
  intros n s Hn. apply ncname_ok_iff in Hn. unfold value_of_name, value_fact. rewrite quoted_eq. cbn [app].
  rewrite (attr_n_run n (quote_of s) (s ++ [quote_of s]) Hn (quote_of_cases s)).
  change (97 :: 61 :: quote_of s :: s ++ [quote_of s]) with ([97; 61] ++ quote_of s :: s ++ [quote_of s]).
  rewrite (attr_a_run (quote_of s) (s ++ [quote_of s]) (quote_of_cases s)).
  destruct (run G_xml G_xml_R nt_att_value (quote_of s :: s ++ [quote_of s])) as [[t r]| |]; try reflexivity.
  destruct (as_list as_attvalue (eval_tree t)) as [avl|]; [|reflexivity].
  destruct r; reflexivity.
Qed.

(** a successful run of att_value: the pieces and the text they spell *)
Lemma inv_av_many_str q s ts r : SM (av_piece q) s ts r ->
  forall b, (b = true -> stops (eval (is_char_except [60;38;q])) s) ->
  exists l, map eval_tree ts = map VAttValue l /\ av_ok q b l /\ s = d_av l ++ r.
Proof.
  intros H. remember (av_piece q) as e eqn:Ee. induction H as [e s|e s t r1 ts r Hs Hlt Hm IH]; intros b Hb; subst e.
  - exists []. split; [reflexivity|]. split; [exact I | reflexivity].
  - specialize (IH eq_refl). unfold av_piece in Hs. inv Hs; invs.
    + (* text *)
      destruct (IH true) as [l [El [Hl Es]]]; [intros _; assumption|].
      exists (AvText a :: l). split; [cbn [map eval_tree]; rewrite El; reflexivity|]. split.
      * cbn [av_ok]. repeat split; try assumption.
        destruct b; [|reflexivity]. exfalso. eapply stops_nonempty_contra; [| |apply Hb; reflexivity]; eassumption.
      * cbn [d_av flat_map d_av_piece]. fold (d_av l). rewrite <- app_assoc. rewrite <- Es. reflexivity.
    + (* reference *)
      match goal with H : succ _ (NT nt_reference) _ _ _ |- _ => apply inv_reference_str in H; destruct H as [x [Ex [Hx Esx]]] end.
      destruct (IH false) as [l [El [Hl Es]]]; [intros; discriminate|].
      exists (AvReference x :: l). split; [cbn [map eval_tree]; rewrite Ex, El; reflexivity|]. split.
      * cbn [av_ok]. split; assumption.
      * cbn [d_av flat_map d_av_piece]. fold (d_av l). rewrite <- app_assoc. rewrite <- Es. exact Esx.
Qed.

Lemma inv_att_value_str s t r : S (NT nt_att_value) s t r ->
  exists q l, (q = 34 \/ q = 39) /\ eval_tree t = VList (map VAttValue l) /\ av_ok q false l /\ s = q :: d_av l ++ q :: r.
Proof.
  intros H. inv_nt H body_att_value. inv_alt; invs.
  - match goal with H : succ_many _ (av_piece 34) _ _ _ |- _ => destruct (inv_av_many_str _ _ _ _ H false) as [l [El [Hl Es]]]; [intros; discriminate|] end.
    exists 34, l. split; [left; reflexivity|]. split; [cbn [eval_tree]; rewrite El; reflexivity|]. split; [exact Hl|].
    cbn [app]. f_equal. exact Es.
  - match goal with H : succ_many _ (av_piece 39) _ _ _ |- _ => destruct (inv_av_many_str _ _ _ _ H false) as [l [El [Hl Es]]]; [intros; discriminate|] end.
    exists 39, l. split; [right; reflexivity|]. split; [cbn [eval_tree]; rewrite El; reflexivity|]. split; [exact Hl|].
    cbn [app]. f_equal. exact Es.
Qed.

Lemma as_attvalue_map l : as_list as_attvalue (VList (map VAttValue l)) = Some l.
Proof. apply as_list_map. reflexivity. Qed.

Theorem value_fact_some : forall s l, value_fact s = Some l ->
  exists avl, l = map vitem_of avl /\ av_ok (quote_of s) false avl /\ s = d_av avl.
Proof.
  intros s l. unfold value_fact. rewrite quoted_eq. rewrite (attr_a_run (quote_of s) (s ++ [quote_of s]) (quote_of_cases s)).
  destruct (run G_xml G_xml_R nt_att_value (quote_of s :: s ++ [quote_of s])) as [[t r]| |] eqn:R; cbn [whole]; try discriminate.
  apply run_succ in R. apply inv_att_value_str in R. destruct R as [q' [avl [Hq' [Et [Hok Es]]]]].
  rewrite Et, as_attvalue_map. destruct r as [|c r]; cbn [whole]; [|discriminate]. intros H. injection H as <-.
  injection Es as Eq Es. subst q'. change (d_av avl ++ [quote_of s]) with (d_av avl ++ [quote_of s]) in Es.
  apply app_inv_tail in Es. exists avl. cbn [attr_a at_value]. repeat split; assumption.
Qed.

Theorem value_fact_of : forall s avl, av_ok (quote_of s) false avl -> s = d_av avl -> value_fact s = Some (map vitem_of avl).
Proof.
  intros s avl Hok Es. unfold value_fact. rewrite quoted_eq. rewrite (attr_a_run (quote_of s) (s ++ [quote_of s]) (quote_of_cases s)).
  destruct (yields_att_value (quote_of s) avl [] (quote_of_cases s) Hok) as [t [Hp Et]].
  rewrite <- Es in Hp. pose proof (run_parses _ _ _ _ Hp) as Hr. unfold str, char in *. rewrite Hr, Et, as_attvalue_map. reflexivity.
Qed.

(** ** the scanner of the specification ([DomL1.pieces]) on the text of well-formed pieces *)
Definition body_of (x : reference) : str :=
  match x with RefEntity n => n | RefChar num r => charref_name num r end.

Lemma d_reference_body x : d_reference x = 38 :: body_of x ++ [59].
Proof. destruct x as [num [|]|n]; reflexivity. Qed.

(** what the specification makes of one piece *)
Definition spec_item (v : att_value) : option DomL1.piece :=
  match v with
  | AvText s => Some (DomL1.PText s)
  | AvReference (RefEntity n) => if is_Name n then Some (DomL1.PEnt n) else None
  | AvReference (RefChar num r) =>
    match Info.char_from num r with Info.IOk c => Some (DomL1.PChar (charref_name num r) c) | _ => None end
  end.

Fixpoint spec_list (l : list att_value) : option (list DomL1.piece) :=
  match l with
  | [] => Some []
  | v :: t => match spec_item v, spec_list t with Some p, Some pl => Some (p :: pl) | _, _ => None end
  end.

(** character classes as ranges *)
Lemma in_range_le c lo hi : in_range c (lo, hi) = (N.leb lo c && N.leb c hi)%bool.
Proof.
  unfold in_range. cbn [fst snd]. f_equal.
  destruct (N.ltb_spec c (hi + 1)), (N.leb_spec c hi); try reflexivity; lia.
Qed.

Lemma dec_range c : eval dec_digits c = (48 <=? c) && (c <=? 57).
Proof. unfold dec_digits. cbn [eval existsb]. rewrite in_range_le, orb_false_r. reflexivity. Qed.

Lemma hex_range c : eval hex_digits c = ((48 <=? c) && (c <=? 57)) || ((65 <=? c) && (c <=? 70)) || ((97 <=? c) && (c <=? 102)).
Proof. unfold hex_digits. cbn [eval existsb]. rewrite !in_range_le, orb_false_r. rewrite orb_assoc. reflexivity. Qed.

Ltac ranges H :=
  repeat match type of H with
         | (_ && _) = true => let H1 := fresh H in apply andb_prop in H; destruct H as [H1 H]
         end.

Lemma dec_cases c : eval dec_digits c = true -> 48 <= c <= 57.
Proof. rewrite dec_range. intros H. apply andb_prop in H. destruct H as [H1 H2]. apply N.leb_le in H1, H2. lia. Qed.

Lemma hex_cases c : eval hex_digits c = true -> 48 <= c <= 57 \/ 65 <= c <= 70 \/ 97 <= c <= 102.
Proof.
  rewrite hex_range. intros H. apply orb_prop in H. destruct H as [H|H]; [apply orb_prop in H; destruct H as [H|H]|];
    apply andb_prop in H; destruct H as [H1 H2]; apply N.leb_le in H1, H2; lia.
Qed.

(** numbers: [num_of] of the specification and [digits_val] of the code *)
Lemma hex_val_dec c : 48 <= c <= 57 -> DomL1.hex_val c = Some (c - 48).
Proof.
  intros H. unfold DomL1.hex_val. replace (48 <=? c) with true by (symmetry; apply N.leb_le; lia).
  replace (c <=? 57) with true by (symmetry; apply N.leb_le; lia). reflexivity.
Qed.

Lemma hex_val_upper c : 65 <= c <= 70 -> DomL1.hex_val c = Some (c - 55).
Proof.
  intros H. unfold DomL1.hex_val. replace (c <=? 57) with false by (symmetry; apply N.leb_gt; lia). rewrite andb_false_r.
  replace (65 <=? c) with true by (symmetry; apply N.leb_le; lia).
  replace (c <=? 70) with true by (symmetry; apply N.leb_le; lia). reflexivity.
Qed.

Lemma hex_val_lower c : 97 <= c <= 102 -> DomL1.hex_val c = Some (c - 87).
Proof.
  intros H. unfold DomL1.hex_val. replace (c <=? 57) with false by (symmetry; apply N.leb_gt; lia). rewrite andb_false_r.
  replace (c <=? 70) with false by (symmetry; apply N.leb_gt; lia). rewrite andb_false_r.
  replace (97 <=? c) with true by (symmetry; apply N.leb_le; lia).
  replace (c <=? 102) with true by (symmetry; apply N.leb_le; lia). reflexivity.
Qed.

Lemma digit_val_dec r c : 48 <= c <= 57 -> Info.digit_val r c = Some (c - 48).
Proof.
  intros H. unfold Info.digit_val. replace (48 <=? c) with true by (symmetry; apply N.leb_le; lia).
  replace (c <=? 57) with true by (symmetry; apply N.leb_le; lia). reflexivity.
Qed.

Lemma digit_val_upper c : 65 <= c <= 70 -> Info.digit_val Hex c = Some (c - 55).
Proof.
  intros H. unfold Info.digit_val. replace (c <=? 57) with false by (symmetry; apply N.leb_gt; lia). rewrite andb_false_r.
  replace (97 <=? c) with false by (symmetry; apply N.leb_gt; lia). cbn [andb].
  replace (65 <=? c) with true by (symmetry; apply N.leb_le; lia).
  replace (c <=? 70) with true by (symmetry; apply N.leb_le; lia). reflexivity.
Qed.

Lemma digit_val_lower c : 97 <= c <= 102 -> Info.digit_val Hex c = Some (c - 87).
Proof.
  intros H. unfold Info.digit_val. replace (c <=? 57) with false by (symmetry; apply N.leb_gt; lia). rewrite andb_false_r.
  replace (97 <=? c) with true by (symmetry; apply N.leb_le; lia).
  replace (c <=? 102) with true by (symmetry; apply N.leb_le; lia). reflexivity.
Qed.

Lemma num_of_dec num : forallb (eval dec_digits) num = true ->
  forall acc, DomL1.num_of 10 num acc = Info.digits_val Dec acc num.
Proof.
  induction num as [|c t IH]; intros H acc; [reflexivity|]. cbn [forallb] in H. apply andb_prop in H. destruct H as [Hc Ht].
  apply dec_cases in Hc. cbn [DomL1.num_of Info.digits_val]. rewrite (hex_val_dec c Hc), (digit_val_dec Dec c Hc).
  replace (c - 48 <? 10) with true by (symmetry; apply N.ltb_lt; lia). apply (IH Ht).
Qed.

Lemma num_of_hex num : forallb (eval hex_digits) num = true ->
  forall acc, DomL1.num_of 16 num acc = Info.digits_val Hex acc num.
Proof.
  induction num as [|c t IH]; intros H acc; [reflexivity|]. cbn [forallb] in H. apply andb_prop in H. destruct H as [Hc Ht].
  apply hex_cases in Hc. cbn [DomL1.num_of Info.digits_val]. destruct Hc as [Hc|[Hc|Hc]].
  - rewrite (hex_val_dec c Hc), (digit_val_dec Hex c Hc).
    replace (c - 48 <? 16) with true by (symmetry; apply N.ltb_lt; lia). apply (IH Ht).
  - rewrite (hex_val_upper c Hc), (digit_val_upper c Hc).
    replace (c - 55 <? 16) with true by (symmetry; apply N.ltb_lt; lia). apply (IH Ht).
  - rewrite (hex_val_lower c Hc), (digit_val_lower c Hc).
    replace (c - 87 <? 16) with true by (symmetry; apply N.ltb_lt; lia). apply (IH Ht).
Qed.

(** the digits a successful [num_of] has read *)
Lemma hex_val_cases c v : DomL1.hex_val c = Some v ->
  (48 <= c <= 57 /\ v = c - 48) \/ (65 <= c <= 70 /\ v = c - 55) \/ (97 <= c <= 102 /\ v = c - 87).
Proof.
  unfold DomL1.hex_val.
  destruct ((48 <=? c) && (c <=? 57)) eqn:E1.
  { intros H. injection H as <-. apply andb_prop in E1. destruct E1 as [A B]. apply N.leb_le in A, B. left. lia. }
  destruct ((65 <=? c) && (c <=? 70)) eqn:E2.
  { intros H. injection H as <-. apply andb_prop in E2. destruct E2 as [A B]. apply N.leb_le in A, B. right. left. lia. }
  destruct ((97 <=? c) && (c <=? 102)) eqn:E3; [|discriminate].
  intros H. injection H as <-. apply andb_prop in E3. destruct E3 as [A B]. apply N.leb_le in A, B. right. right. lia.
Qed.

Lemma in_dec c : 48 <= c <= 57 -> eval dec_digits c = true.
Proof. intros H. rewrite dec_range. apply andb_true_intro. split; apply N.leb_le; lia. Qed.

Lemma in_hex c : 48 <= c <= 57 \/ 65 <= c <= 70 \/ 97 <= c <= 102 -> eval hex_digits c = true.
Proof.
  intros H. rewrite hex_range. destruct H as [H|[H|H]].
  - replace ((48 <=? c) && (c <=? 57)) with true; [reflexivity|]. symmetry. apply andb_true_intro. split; apply N.leb_le; lia.
  - replace ((65 <=? c) && (c <=? 70)) with true; [rewrite orb_true_r; reflexivity|]. symmetry. apply andb_true_intro. split; apply N.leb_le; lia.
  - replace ((97 <=? c) && (c <=? 102)) with true; [apply orb_true_r|]. symmetry. apply andb_true_intro. split; apply N.leb_le; lia.
Qed.

Lemma num_of_some_dec num : forall acc v, DomL1.num_of 10 num acc = Some v -> forallb (eval dec_digits) num = true.
Proof.
  induction num as [|c t IH]; intros acc v H; [reflexivity|]. cbn [DomL1.num_of] in H.
  destruct (DomL1.hex_val c) as [d|] eqn:E; [|discriminate]. destruct (d <? 10) eqn:L; [|discriminate].
  apply N.ltb_lt in L. cbn [forallb]. apply andb_true_intro. split; [|exact (IH _ _ H)].
  apply in_dec. destruct (hex_val_cases c d E) as [[A B]|[[A B]|[A B]]]; lia.
Qed.

Lemma num_of_some_hex num : forall acc v, DomL1.num_of 16 num acc = Some v -> forallb (eval hex_digits) num = true.
Proof.
  induction num as [|c t IH]; intros acc v H; [reflexivity|]. cbn [DomL1.num_of] in H.
  destruct (DomL1.hex_val c) as [d|] eqn:E; [|discriminate]. destruct (d <? 16) eqn:L; [|discriminate].
  cbn [forallb]. apply andb_true_intro. split; [|exact (IH _ _ H)].
  apply in_hex. destruct (hex_val_cases c d E) as [[A B]|[[A B]|[A B]]]; tauto.
Qed.

(** a character of XML is a scalar value below 2^32 *)
Lemma isChar_scalar v : DomCharData.isChar v = true -> (v <=? 4294967295) = true /\ Info.is_scalar v = true.
Proof.
  rewrite <- CharDataProofs.is_xml_char_spec. unfold CharData.is_xml_char, Info.is_scalar. intros H.
  assert (R : v = 9 \/ v = 10 \/ v = 13 \/ 32 <= v <= 55295 \/ 57344 <= v <= 65533 \/ 65536 <= v <= 1114111).
  { repeat (apply orb_prop in H; destruct H as [H|H]);
      try (apply N.eqb_eq in H; tauto);
      apply andb_prop in H; destruct H as [A B]; apply N.leb_le in A, B; tauto. }
  split; [apply N.leb_le; lia|].
  apply orb_true_iff. rewrite N.ltb_lt, andb_true_iff, !N.leb_le. lia.
Qed.

(** the three tests on the first characters of the body of a reference / of a number *)
Lemma reference_other c t : c <> 35 ->
  DomL1.reference (c :: t) = if is_Name (c :: t) then Some (DomL1.PEnt (c :: t)) else None.
Proof.
  intros Hc. unfold DomL1.reference. destruct c as [|p]; [reflexivity|].
  do 6 (try (destruct p as [p|p|]; try reflexivity)); exfalso; apply Hc; reflexivity.
Qed.

Lemma reference_dec c t : c <> 120 ->
  DomL1.reference (35 :: c :: t) =
  match DomL1.num_of 10 (c :: t) 0 with
  | Some v => if DomCharData.isChar v then Some (DomL1.PChar (35 :: c :: t) v) else None
  | None => None
  end.
Proof.
  intros Hc. unfold DomL1.reference. destruct c as [|p]; [reflexivity|].
  do 7 (try (destruct p as [p|p|]; try reflexivity)); exfalso; apply Hc; reflexivity.
Qed.

Lemma parse_u32_digits r c t : c <> 43 ->
  Info.parse_u32 r (c :: t) =
  match Info.digits_val r 0 (c :: t) with Some n => if n <=? 4294967295 then Some n else None | None => None end.
Proof.
  intros Hc. unfold Info.parse_u32. destruct c as [|p]; [reflexivity|].
  do 6 (try (destruct p as [p|p|]; try reflexivity)); exfalso; apply Hc; reflexivity.
Qed.

(** ** one reference: the specification on the body of a well-formed reference *)
Lemma name_char_not c x : eval is_name_char c = true -> eval is_name_char x = false -> c <> x.
Proof. intros H1 H2 ->. congruence. Qed.

Lemma char_from_spec (c : N) (t : list N) r v : c <> 43 -> Info.digits_val r 0 (c :: t) = Some v ->
  match Info.char_from (c :: t) r with Info.IOk c => Some c | _ => None end = if DomCharData.isChar v then Some v else None.
Proof.
  intros Hc Hd. unfold Info.char_from. rewrite (parse_u32_digits r c t Hc), Hd.
  destruct (DomCharData.isChar v) eqn:E.
  - destruct (isChar_scalar v E) as [L Sc]. rewrite L, Sc. rewrite <- isChar_is_char, E. reflexivity.
  - destruct (v <=? 4294967295); [|reflexivity]. rewrite <- isChar_is_char, E, andb_false_r. reflexivity.
Qed.

Lemma num_of_total_dec num : forallb (eval dec_digits) num = true -> forall acc, exists v, DomL1.num_of 10 num acc = Some v.
Proof.
  induction num as [|c t IH]; intros H acc; [eexists; reflexivity|]. cbn [forallb] in H. apply andb_prop in H. destruct H as [Hc Ht].
  apply dec_cases in Hc. cbn [DomL1.num_of]. rewrite (hex_val_dec c Hc).
  replace (c - 48 <? 10) with true by (symmetry; apply N.ltb_lt; lia). apply (IH Ht).
Qed.

Lemma num_of_total_hex num : forallb (eval hex_digits) num = true -> forall acc, exists v, DomL1.num_of 16 num acc = Some v.
Proof.
  induction num as [|c t IH]; intros H acc; [eexists; reflexivity|]. cbn [forallb] in H. apply andb_prop in H. destruct H as [Hc Ht].
  apply hex_cases in Hc. cbn [DomL1.num_of]. destruct Hc as [Hc|[Hc|Hc]].
  - rewrite (hex_val_dec c Hc). replace (c - 48 <? 16) with true by (symmetry; apply N.ltb_lt; lia). apply (IH Ht).
  - rewrite (hex_val_upper c Hc). replace (c - 55 <? 16) with true by (symmetry; apply N.ltb_lt; lia). apply (IH Ht).
  - rewrite (hex_val_lower c Hc). replace (c - 87 <? 16) with true by (symmetry; apply N.ltb_lt; lia). apply (IH Ht).
Qed.

Theorem reference_spec : forall x, reference_ok x -> DomL1.reference (body_of x) = spec_item (AvReference x).
Proof.
  intros [num [|]|n]; cbn [reference_ok body_of spec_item charref_name].
  - (* decimal *)
    intros [Hne Hd]. destruct num as [|c t]; [contradiction|]. unfold str, char in *.
    assert (Hc : 48 <= c <= 57) by (cbn [forallb] in Hd; apply andb_prop in Hd; apply dec_cases; tauto).
    rewrite (reference_dec c t) by lia.
    destruct (num_of_total_dec (c :: t) Hd 0) as [v Hv]. rewrite Hv.
    pose proof Hv as Hv'. rewrite (num_of_dec (c :: t) Hd 0) in Hv'.
    assert (Hc43 : c <> 43) by lia.
    pose proof (char_from_spec c t Dec v Hc43 Hv') as Hcf.
    destruct (Info.char_from (c :: t) Dec) as [c'|e|ps|]; destruct (DomCharData.isChar v); try discriminate; try reflexivity.
    injection Hcf as ->. reflexivity.
  - (* hexadecimal *)
    intros [Hne Hd]. destruct num as [|c t]; [contradiction|]. unfold str, char in *.
    assert (Hc : 48 <= c <= 57 \/ 65 <= c <= 70 \/ 97 <= c <= 102) by (cbn [forallb] in Hd; apply andb_prop in Hd; apply hex_cases; tauto).
    unfold DomL1.reference.
    destruct (num_of_total_hex (c :: t) Hd 0) as [v Hv]. rewrite Hv.
    pose proof Hv as Hv'. rewrite (num_of_hex (c :: t) Hd 0) in Hv'.
    assert (Hc43 : c <> 43) by lia.
    pose proof (char_from_spec c t Hex v Hc43 Hv') as Hcf.
    destruct (Info.char_from (c :: t) Hex) as [c'|e|ps|]; destruct (DomCharData.isChar v); try discriminate; try reflexivity.
    injection Hcf as ->. reflexivity.
  - (* entity *)
    intros Hn. destruct n as [|c t]; [reflexivity|].
    apply reference_other. unfold name_ok in Hn. cbn [forallb] in Hn. apply andb_prop in Hn. destruct Hn as [Hc _].
    apply (name_char_not c 35 Hc). reflexivity.
Qed.

(** ** the text up to the semicolon *)
Definition no_semi (s : str) : bool := forallb (fun c => negb (c =? 59)) s.

Lemma until_semi_app body rest : no_semi body = true -> DomL1.until_semi (body ++ 59 :: rest) = Some (body, rest).
Proof.
  unfold no_semi. induction body as [|c b IH]; cbn [app forallb DomL1.until_semi]; [reflexivity|].
  intros H. apply andb_prop in H. destruct H as [Hc Hb]. apply negb_true_iff in Hc. rewrite Hc, (IH Hb). reflexivity.
Qed.

Lemma until_semi_some t : forall body rest, DomL1.until_semi t = Some (body, rest) -> t = body ++ 59 :: rest /\ no_semi body = true.
Proof.
  unfold no_semi. induction t as [|c t IH]; intros body rest; cbn [DomL1.until_semi]; [discriminate|].
  destruct (N.eqb_spec c 59) as [->|Hc].
  - intros H. injection H as <- <-. split; reflexivity.
  - destruct (DomL1.until_semi t) as [[a b]|]; [|discriminate]. intros H. injection H as <- <-.
    destruct (IH a b eq_refl) as [-> Ha]. split; [reflexivity|]. cbn [forallb]. rewrite Ha.
    replace (c =? 59) with false by (symmetry; apply N.eqb_neq; exact Hc). reflexivity.
Qed.

Lemma forallb_impl' {A} (f g : A -> bool) l : (forall x, f x = true -> g x = true) -> forallb f l = true -> forallb g l = true.
Proof.
  intros H. induction l as [|x l IH]; cbn [forallb]; [auto|]. intros E. apply andb_prop in E. destruct E as [E1 E2].
  rewrite (H x E1), (IH E2). reflexivity.
Qed.

Lemma body_no_semi x : reference_ok x -> no_semi (body_of x) = true.
Proof.
  unfold no_semi. destruct x as [num [|]|n]; cbn [reference_ok body_of charref_name forallb].
  - intros [_ H]. change (negb (35 =? 59)) with true. cbn [andb]. revert H. apply forallb_impl'.
    intros c Hc. apply dec_cases in Hc. apply negb_true_iff. apply N.eqb_neq. lia.
  - intros [_ H]. change (negb (35 =? 59)) with true. change (negb (120 =? 59)) with true. cbn [andb]. revert H. apply forallb_impl'.
    intros c Hc. apply hex_cases in Hc. apply negb_true_iff. apply N.eqb_neq. lia.
  - unfold name_ok. apply forallb_impl'. intros c Hc. apply negb_true_iff. apply N.eqb_neq.
    apply (name_char_not c 59 Hc). reflexivity.
Qed.

(** ** ordinary characters of a value *)
Lemma avc_props q c : eval (is_char_except [60;38;q]) c = true ->
  DomCharData.isChar c = true /\ (c =? 60) = false /\ (c =? 38) = false /\ (c =? q) = false.
Proof.
  rewrite is_char_except_equiv. cbn [existsb]. rewrite orb_false_r. intros H. apply andb_prop in H. destruct H as [H1 H2].
  apply negb_true_iff in H2. apply orb_false_iff in H2. destruct H2 as [H2 H3]. apply orb_false_iff in H3. destruct H3 as [H3 H4].
  repeat split; assumption.
Qed.

Lemma avc_intro q c : DomCharData.isChar c = true -> (c =? 60) = false -> (c =? 38) = false -> (c =? q) = false ->
  eval (is_char_except [60;38;q]) c = true.
Proof.
  intros H1 H2 H3 H4. rewrite is_char_except_equiv. cbn [existsb]. rewrite H2, H3, H4. cbn [orb negb]. rewrite andb_true_r. exact H1.
Qed.

Lemma pieces_nil f cur : DomL1.pieces f [] cur = Some (DomL1.push_text (rev cur) []).
Proof. destruct f; reflexivity. Qed.

Lemma pieces_text q (a : str) : forallb (eval (is_char_except [60;38;q])) a = true ->
  forall (rest cur : str) f, (length a + length rest <= f)%nat ->
  DomL1.pieces f (a ++ rest) cur = DomL1.pieces (f - length a) rest (rev a ++ cur).
Proof.
  induction a as [|c a IH]; intros Ha rest cur f Hf.
  - cbn [app length rev]. rewrite Nat.sub_0_r. reflexivity.
  - cbn [forallb] in Ha. apply andb_prop in Ha. destruct Ha as [Hc Ha]. destruct (avc_props q c Hc) as [C1 [C2 [C3 _]]].
    destruct f as [|f]; [cbn [length] in Hf; lia|]. cbn [app DomL1.pieces length Nat.sub]. rewrite C2, C3, C1.
    rewrite (IH Ha rest (c :: cur) f) by (cbn [length] in Hf; lia). cbn [rev]. rewrite <- app_assoc. reflexivity.
Qed.

(** ** the specification reads well-formed pieces back *)
Theorem pieces_of_av q : forall l b (cur : str) f, av_ok q b l -> (b = false -> cur = []) -> (length (d_av l) <= f)%nat ->
  DomL1.pieces f (d_av l) cur = option_map (DomL1.push_text (rev cur)) (spec_list l).
Proof.
  induction l as [|v l IH]; intros b cur f Hok Hb Hf.
  - cbn [d_av flat_map spec_list option_map]. apply pieces_nil.
  - destruct v as [x|s].
    + (* a reference *)
      cbn [av_ok] in Hok. destruct Hok as [Hx Hl]. cbn [d_av flat_map d_av_piece] in *. fold (d_av l) in *.
      rewrite d_reference_body in *. cbn [app] in *. rewrite <- app_assoc in *. cbn [app] in *.
      destruct f as [|f]; [cbn [length] in Hf; lia|]. cbn [DomL1.pieces].
      change (38 =? 60) with false. change (38 =? 38) with true. cbv iota.
      pose proof (until_semi_app (body_of x) (d_av l) (body_no_semi x Hx)) as UU. unfold str, char in *. rewrite UU. clear UU.
      rewrite (reference_spec x Hx).
      rewrite (IH false [] f Hl (fun _ => eq_refl)) by (cbn [length] in Hf; rewrite app_length in Hf; cbn [length] in Hf; lia).
      cbn [spec_list rev]. destruct (spec_item (AvReference x)) as [p|]; [|reflexivity].
      destruct (spec_list l) as [pl|]; reflexivity.
    + (* text *)
      cbn [av_ok] in Hok. destruct Hok as [Eb [Hne [Hs Hl]]]. rewrite (Hb Eb). cbn [d_av flat_map d_av_piece] in *. fold (d_av l) in *.
      rewrite app_length in Hf.
      rewrite (pieces_text q s Hs (d_av l) [] f Hf).
      rewrite (IH true (rev s ++ []) (f - length s)%nat Hl) by (try discriminate; lia).
      rewrite app_nil_r, rev_involutive. cbn [spec_list spec_item rev].
      destruct (spec_list l) as [pl|]; [|reflexivity]. cbn [option_map]. destruct s; [contradiction | reflexivity].
Qed.

(** ** and whatever the specification accepts is the text of well-formed pieces *)
Lemma is_Name_name_ok n : is_Name n = true -> name_ok n.
Proof.
  destruct n as [|c t]; [discriminate|]. cbn [is_Name]. intros H. apply andb_prop in H. destruct H as [H1 H2].
  apply name_ok_NC. cbn [forallb]. rewrite (NSC_NC c H1). exact H2.
Qed.

Lemma reference_inv (body : list N) p : DomL1.reference body = Some p -> exists x, reference_ok x /\ body_of x = body.
Proof.
  destruct body as [|c t]; [discriminate|].
  destruct (N.eq_dec c 35) as [->|Hc].
  - destruct t as [|c2 h]; [discriminate|].
    destruct (N.eq_dec c2 120) as [->|Hc2].
    + unfold DomL1.reference. destruct h as [|c3 h']; [discriminate|].
      destruct (DomL1.num_of 16 (c3 :: h') 0) as [v|] eqn:E; [|discriminate]. intros _.
      exists (RefChar (c3 :: h') Hex). split; [|reflexivity]. split; [discriminate|]. exact (num_of_some_hex _ _ _ E).
    + rewrite (reference_dec c2 h Hc2). destruct (DomL1.num_of 10 (c2 :: h) 0) as [v|] eqn:E; [|discriminate]. intros _.
      exists (RefChar (c2 :: h) Dec). split; [|reflexivity]. split; [discriminate|]. exact (num_of_some_dec _ _ _ E).
  - rewrite (reference_other c t Hc). destruct (is_Name (c :: t)) eqn:E; [|discriminate]. intros _.
    exists (RefEntity (c :: t)). split; [apply is_Name_name_ok; exact E | reflexivity].
Qed.

Lemma forallb_rev' {A} (f : A -> bool) l : forallb f l = true -> forallb f (rev l) = true.
Proof.
  intros H. apply forallb_forall. intros x Hx. rewrite forallb_forall in H. apply H. apply in_rev. exact Hx.
Qed.

Definition text_of (cur : str) : list att_value := match cur with [] => [] | _ => [AvText (rev cur)] end.

Lemma text_of_d_av cur l : d_av (text_of cur ++ l) = rev cur ++ d_av l.
Proof. destruct cur as [|c cur]; [reflexivity|]. cbn [text_of app d_av flat_map d_av_piece]. reflexivity. Qed.

Lemma text_of_ok q cur l : forallb (eval (is_char_except [60;38;q])) cur = true ->
  match l with AvText _ :: _ => False | _ => av_ok q false l end -> av_ok q false (text_of cur ++ l).
Proof.
  intros Hc Hl. destruct cur as [|c cur].
  - cbn [text_of app]. destruct l as [|[x|s] l]; [exact I | exact Hl | contradiction].
  - cbn [text_of app av_ok]. split; [reflexivity|]. split.
    + cbn [rev]. intros E. apply app_eq_nil in E. destruct E as [_ E]. discriminate.
    + split; [apply forallb_rev'; exact Hc|]. destruct l as [|[x|s] l]; [exact I | exact Hl | contradiction].
Qed.

Theorem av_of_pieces q : forall f (s cur : str) pl, DomL1.pieces f s cur = Some pl ->
  existsb (N.eqb q) s = false -> forallb (eval (is_char_except [60;38;q])) cur = true ->
  exists l, d_av l = rev cur ++ s /\ av_ok q false l.
Proof.
  assert (Hend : forall cur : str, forallb (eval (is_char_except [60;38;q])) cur = true ->
            exists l, d_av l = rev cur ++ [] /\ av_ok q false l).
  { intros cur Hc. exists (text_of cur ++ []). split; [apply text_of_d_av | apply text_of_ok; [exact Hc | exact I]]. }
  induction f as [|f IH]; intros s cur pl H Hq Hc.
  - destruct s; [apply Hend; exact Hc | discriminate].
  - destruct s as [|c t]; [apply Hend; exact Hc|]. cbn [DomL1.pieces] in H. cbn [existsb] in Hq. apply orb_false_iff in Hq. destruct Hq as [Hqc Hqt].
    destruct (c =? 60) eqn:E60; [discriminate|].
    destruct (N.eqb_spec c 38) as [->|E38].
    + destruct (DomL1.until_semi t) as [[body rest]|] eqn:U; [|discriminate].
      destruct (DomL1.reference body) as [p|] eqn:Rf; [|discriminate].
      destruct (DomL1.pieces f rest []) as [l0|] eqn:Pr; [|discriminate].
      destruct (until_semi_some t body rest U) as [-> _].
      destruct (reference_inv body p Rf) as [x [Hx Ex]].
      assert (Hqr : existsb (N.eqb q) rest = false).
      { rewrite existsb_app in Hqt. apply orb_false_iff in Hqt. destruct Hqt as [_ Hqt]. cbn [existsb] in Hqt. apply orb_false_iff in Hqt. tauto. }
      destruct (IH rest [] l0 Pr Hqr eq_refl) as [l' [El' Hl']]. cbn [rev app] in El'.
      exists (text_of cur ++ AvReference x :: l'). split.
      * rewrite text_of_d_av. cbn [d_av flat_map d_av_piece]. fold (d_av l'). rewrite d_reference_body, Ex, El'.
        cbn [app]. rewrite <- app_assoc. reflexivity.
      * apply text_of_ok; [exact Hc|]. cbn [av_ok]. split; assumption.
    + destruct (DomCharData.isChar c) eqn:Ech; [|discriminate].
      assert (Hcc : eval (is_char_except [60;38;q]) c = true).
      { apply avc_intro; [exact Ech | exact E60 | apply N.eqb_neq; exact E38 | rewrite N.eqb_sym; exact Hqc]. }
      destruct (IH t (c :: cur) pl H Hqt) as [l [El Hl]]; [cbn [forallb]; rewrite Hcc; exact Hc|].
      exists l. split; [|exact Hl]. rewrite El. cbn [rev]. rewrite <- app_assoc. reflexivity.
Qed.

(** ** finding D04 seen through attribute values: a reference [&nm;] whose name is a run of name
    characters that is empty or starts with a character that cannot start a Name.  The parser
    accepts it (production [name]), XML 1.0 does not.  [value_D04] looks at every position. *)
Definition ent_D04 (s : str) : bool :=
  match s with
  | c :: t => (c =? 38) && (let (nm, d) := span NC t in match d with y :: _ => (y =? 59) && KnownD04 nm | [] => false end)
  | [] => false
  end.

Fixpoint value_D04 (s : str) : bool :=
  match s with [] => false | _ :: t => ent_D04 s || value_D04 t end.

Lemma value_D04_app (a b : str) : value_D04 (a ++ b) = false -> value_D04 b = false.
Proof.
  induction a as [|c a IH]; cbn [app]; [auto|]. cbn [value_D04]. intros H. apply orb_false_iff in H. apply IH. tauto.
Qed.

Definition item_no_D04 (v : att_value) : Prop :=
  match v with AvReference (RefEntity n) => KnownD04 n = false | _ => True end.

Lemma items_no_D04 q : forall l b, av_ok q b l -> value_D04 (d_av l) = false -> Forall item_no_D04 l.
Proof.
  induction l as [|v l IH]; intros b Hok Hd; [constructor|].
  cbn [d_av flat_map] in Hd. fold (d_av l) in Hd. pose proof (value_D04_app _ _ Hd) as Hd'.
  destruct v as [[num r|n]|s]; cbn [av_ok] in Hok.
  - constructor; [exact I|]. apply (IH false); tauto.
  - constructor; [|apply (IH false); tauto]. cbn [item_no_D04]. destruct Hok as [Hn _].
    cbn [d_av_piece d_reference app value_D04 ent_D04] in Hd. apply orb_false_iff in Hd. destruct Hd as [Hd _].
    rewrite <- app_assoc in Hd. cbn [app] in Hd.
    assert (Hsp : span NC (n ++ 59 :: d_av l) = (n, 59 :: d_av l)) by (apply span_app; [apply name_ok_NC; exact Hn | reflexivity]).
    unfold str, char in *. rewrite Hsp in Hd. exact Hd.
  - constructor; [exact I|]. apply (IH true); tauto.
Qed.

(** the C02 predicate [XmlWFLexical.no_D04] is coarser: it also excludes an ampersand that starts
    no reference at all; see Proofs/DomFactsAgree.v *)

(** ** the delimiter does not occur in the pieces *)
Lemma existsb_app_false' {A} (f : A -> bool) a b : existsb f a = false -> existsb f b = false -> existsb f (a ++ b) = false.
Proof. intros Ha Hb. rewrite existsb_app, Ha, Hb. reflexivity. Qed.

Lemma av_no_quote q : q = 34 \/ q = 39 -> forall l b, av_ok q b l -> existsb (N.eqb q) (d_av l) = false.
Proof.
  intros Hq. induction l as [|v l IH]; intros b Hok; [reflexivity|].
  cbn [d_av flat_map]. fold (d_av l). destruct v as [[num r|n]|s]; cbn [av_ok] in Hok; cbn [d_av_piece].
  - destruct Hok as [Hx Hl]. apply existsb_app_false'; [|exact (IH false Hl)].
    destruct r; cbn [reference_ok d_reference] in *; destruct Hx as [_ Hd].
    + change (38 :: 35 :: num ++ [59]) with ([38; 35] ++ num ++ [59]).
      apply existsb_app_false'; [destruct Hq as [-> | ->]; reflexivity|].
      apply existsb_app_false'; [|destruct Hq as [-> | ->]; reflexivity].
      eapply digits_no_quote; [|exact Hd]. destruct Hq as [-> | ->]; reflexivity.
    + change (38 :: 35 :: 120 :: num ++ [59]) with ([38; 35; 120] ++ num ++ [59]).
      apply existsb_app_false'; [destruct Hq as [-> | ->]; reflexivity|].
      apply existsb_app_false'; [|destruct Hq as [-> | ->]; reflexivity].
      eapply digits_no_quote; [|exact Hd]. destruct Hq as [-> | ->]; reflexivity.
  - destruct Hok as [Hx Hl]. apply existsb_app_false'; [|exact (IH false Hl)]. cbn [reference_ok d_reference] in *.
    change (38 :: n ++ [59]) with ([38] ++ n ++ [59]).
    apply existsb_app_false'; [destruct Hq as [-> | ->]; reflexivity|].
    apply existsb_app_false'; [apply name_ok_no_quote; assumption | destruct Hq as [-> | ->]; reflexivity].
  - destruct Hok as [_ [_ [Hs Hl]]]. apply existsb_app_false'; [|exact (IH true Hl)].
    eapply except_no_char; [|exact Hs]. cbn. tauto.
Qed.

Lemma quote_of_absent s : existsb (N.eqb 34) s && existsb (N.eqb 39) s = false -> existsb (N.eqb (quote_of s)) s = false.
Proof.
  unfold quote_of. destruct (existsb (N.eqb 34) s) eqn:E; cbn [andb]; [auto | intros _; exact E].
Qed.

(** ** the value fact against [parse_attvalue]: both read the same pieces *)
Definition av_shape (s : str) (avl : list att_value) : Prop :=
  av_ok (quote_of s) false avl /\ s = d_av avl /\ (value_D04 s = false -> Forall item_no_D04 avl).

Theorem value_fact_parse : forall s,
  match DomL1.parse_attvalue s with
  | Some pl => exists avl, value_fact s = Some (map vitem_of avl) /\ av_shape s avl /\ spec_list avl = Some pl
  | None => forall l, value_fact s = Some l -> exists avl, l = map vitem_of avl /\ av_shape s avl /\ spec_list avl = None
  end.
Proof.
  intros s. unfold DomL1.parse_attvalue.
  destruct (existsb (N.eqb 34) s && existsb (N.eqb 39) s) eqn:Both.
  - (* both quotation marks: no literal *)
    intros l Hl. exfalso. destruct (value_fact_some s l Hl) as [avl [_ [Hok Es]]].
    pose proof (av_no_quote (quote_of s) (quote_of_cases s) avl false Hok) as Hn. rewrite <- Es in Hn.
    unfold quote_of in Hn. apply andb_prop in Both. destruct Both as [B1 B2]. rewrite B1 in Hn. congruence.
  - pose proof (quote_of_absent s Both) as Hq.
    destruct (DomL1.pieces (length s) s []) as [pl|] eqn:Pc.
    + destruct (av_of_pieces (quote_of s) (length s) s [] pl Pc Hq eq_refl) as [avl [Es Hok]]. cbn [rev app] in Es.
      exists avl. split; [apply value_fact_of; [exact Hok | symmetry; exact Es]|].
      split; [split; [exact Hok|]; split; [symmetry; exact Es|]; intros Hd; apply (items_no_D04 (quote_of s) avl false Hok); rewrite Es; exact Hd|].
      pose proof (pieces_of_av (quote_of s) avl false [] (length s) Hok (fun _ => eq_refl)) as Hp.
      rewrite Es in Hp. rewrite Pc in Hp. specialize (Hp (le_n _)). cbn [rev] in Hp.
      destruct (spec_list avl) as [pl'|]; cbn [option_map] in Hp; [|discriminate]. injection Hp as ->. reflexivity.
    + intros l Hl. destruct (value_fact_some s l Hl) as [avl [El [Hok Es]]]. exists avl. split; [exact El|].
      split; [split; [exact Hok|]; split; [exact Es|]; intros Hd; apply (items_no_D04 (quote_of s) avl false Hok); rewrite <- Es; exact Hd|].
      pose proof (pieces_of_av (quote_of s) avl false [] (length s) Hok (fun _ => eq_refl)) as Hp.
      rewrite <- Es in Hp. rewrite Pc in Hp. specialize (Hp (le_n _)). cbn [rev] in Hp.
      destruct (spec_list avl) as [pl'|]; cbn [option_map] in Hp; [discriminate | reflexivity].
Qed.
