(* domspec: ONE call of a DOM Level 1 mutator on the extracted specification (Spec/DomL1.v).
   Input words:  <op> <dump words of the state before the call> [E<h>=<name>:<0|1>;...]*
     - op as in harness/src/domains/dom.rs (handles are indices into the dump); NZ carries the view as a third field
       (`NZ:<h>:r` / `NZ:<h>:m`, see the NZ arm below);
     - dump words as printed by the harness with the `+x` view suffix: node words
       `h=kind/name/data/p=../c=../...`, `X<h>=<document>/<qualified name>`; S and R words are ignored;
     - E words: entities declared by the document type with handle h (name, usable in attribute values).
   Output:  <result class> # <canonical state after the call>
     result class: ok | ok:~ | ok:<h> | err:<ExceptionCode> | err:refused | unspecified | na
     canonical state: per handle `h=kind/name/data/p=<h|~>/c=<h.h|->/a=<sorted h.h|->/ow=<h|~>`
   New nodes get handles the way the harness hands them out: the returned node first, then a scan of
   the table in index order (namespace attributes, other attributes, children). *)
let ds_split c s = String.split_on_char c s

let ds_type = function
  | "doc" -> TDocument | "el" -> TElement | "at" -> TAttr | "tx" -> TText | "cd" -> TCData
  | "er" -> TEntityRef | "cr" -> TCharRef | "pi" -> TPi | "cm" -> TComment | "dt" -> TDoctype
  | "fr" -> TFragment | s -> failwith ("kind " ^ s)
let ds_type_name = function
  | TDocument -> "doc" | TElement -> "el" | TAttr -> "at" | TText -> "tx" | TCData -> "cd"
  | TEntityRef -> "er" | TCharRef -> "cr" | TPi -> "pi" | TComment -> "cm" | TDoctype -> "dt"
  | TFragment -> "fr"

let ds_hl s = if s = "-" then [] else List.filter_map int_of_string_opt (ds_split '.' s)
let ds_str s = List.map (fun c -> n_of_int (Char.code c)) (List.init (String.length s) (String.get s))
let ds_usize_max : n = let rec ones k = if k = 1 then XH else XI (ones (k - 1)) in Npos (ones 64)

let ds_exc = function
  | IndexSizeErr -> "IndexSizeErr" | DomStringSizeErr -> "DomStringSizeErr"
  | HierarchyRequestErr -> "HierarchyRequestErr" | WrongDocumentErr -> "WrongDocumentErr"
  | InvalidCharacterErr -> "InvalidCharacterErr" | NoDataAllowedErr -> "NoDataAllowedErr"
  | NoModificationAllowedErr -> "NoModificationAllowedErr" | NotFoundErr -> "NotFoundErr"
  | NotSupportedErr -> "NotSupportedErr" | InuseAttributeErr -> "InuseAttributeErr"

let ascii_safe (l : n list) : string =
  String.concat "" (List.map (fun x -> let c = int_of_n x in if c < 128 then String.make 1 (Char.chr c) else "?") l)
let is_ns_name (name : n list) : bool =
  let s = ascii_safe name in
  s = "xmlns" || (String.length s > 6 && String.sub s 0 6 = "xmlns:")

(* ES / ESI / ER / TS / TSI / TR: the mutators of the read-only maps of a DocumentType (Spec/DomL1ReadOnly.v, reading R8).
   The state of Spec/DomL1.v does not record notations: the words N<h>=<name.name...|~> (one per DocumentType handle, from
   the T words of the implementation's record 0) give the fact [declared] of the TS / TSI calls.
   [nodes]: h -> (kind, fields) of the state before the call. *)
let ds_ro_op (nodes : (int, string * string array) Hashtbl.t) (rest : string list) (f : string array)
    (h : int -> (n * n) option) : aro_op option =
  let fld k = if k < Array.length f then f.(k) else "" in
  let field fs key =
    let r = ref "-" in
    Array.iter (fun x -> match ds_split '=' x with [k; v] when k = key -> r := v | _ -> ()) fs; !r in
  let doctype_handle x =
    match Hashtbl.find_opt nodes x with
    | Some ("dt", _) -> Some x
    | Some ("doc", fs) ->
      List.find_opt (fun c -> match Hashtbl.find_opt nodes c with Some ("dt", _) -> true | _ -> false) (ds_hl (field fs "c"))
    | _ -> None in
  let notation_names x =
    match doctype_handle x with
    | None -> []
    | Some t ->
      let key = "N" ^ string_of_int t in
      List.fold_left (fun acc w -> match ds_split '=' w with
          | [k; l] when k = key -> if l = "~" then [] else List.map dec (ds_split '.' l)
          | _ -> acc) [] rest in
  let m = if f.(0).[0] = 'E' then AEntities else ANotations in
  match f.(0), h 1 with
  | ("ER" | "TR"), Some r -> Some (AMapRemoveNamedItem (m, r, dec (fld 2)))
  | ("ES" | "TS" | "ESI" | "TSI"), Some r ->
    (match h 2, int_of_string_opt (fld 2) with
     | Some src, Some sx ->
       let byname = String.length f.(0) = 2 in
       let names = if m = ANotations then notation_names sx else [] in
       let idx = (match int_of_string_opt (fld 3) with Some x when x >= 0 -> x | _ -> max_int) in
       let declared = if byname then List.mem (dec (fld 3)) names else idx < List.length names in
       let k = if byname then AByName (dec (fld 3)) else AByIndex (if idx = max_int then ds_usize_max else n_of_int idx) in
       Some (AMapSetNamedItem (m, r, src, k, declared))
     | _ -> None)
  | _ -> None

let () = register "domspec" (fun words ->
  match words with
  | [] -> "skip"
  | opw :: rest ->
    (* ---- read the state ---- *)
    let nodes = Hashtbl.create 64 in      (* h -> fields *)
    let xs = Hashtbl.create 64 in         (* h -> (doc, qualified name option) *)
    let ents = Hashtbl.create 4 in
    List.iter (fun w ->
      if w = "" then () else
      match w.[0] with
      | 'S' | 'R' -> ()
      | 'X' ->
        (match ds_split '=' w with
         | [k; v] ->
           let h = int_of_string (String.sub k 1 (String.length k - 1)) in
           (match ds_split '/' v with
            | [d; q] -> Hashtbl.replace xs h (int_of_string d, (if q = "~" then None else Some (dec q)))
            | _ -> ())
         | _ -> ())
      | 'E' ->
        (match ds_split '=' w with
         | [k; v] ->
           let h = int_of_string (String.sub k 1 (String.length k - 1)) in
           let l = List.filter_map (fun e -> match ds_split ':' e with
               | [nm; fl] -> Some (dec nm, fl = "1") | _ -> None) (ds_split ';' v) in
           Hashtbl.replace ents h l
         | _ -> ())
      | '0' .. '9' ->
        let f = Array.of_list (ds_split '/' w) in
        (match ds_split '=' f.(0) with
         | [h; k] -> Hashtbl.replace nodes (int_of_string h) (k, f)
         | _ -> ())
      | _ -> ()) rest;
    let nh = Hashtbl.length nodes in
    let field f key =
      let r = ref "-" in
      Array.iter (fun x -> match ds_split '=' x with [k; v] when k = key -> r := v | _ -> ()) f; !r in
    let doc_of_h h = match Hashtbl.find_opt xs h with Some (d, _) -> d | None -> 0 in
    let ndocs = 1 + Hashtbl.fold (fun _ (d, _) m -> max d m) xs 0 in
    (* parents from the child lists; owner element of an attribute from ow= *)
    let parent = Hashtbl.create 64 in
    Hashtbl.iter (fun h (_, f) -> List.iter (fun c -> Hashtbl.replace parent c h) (ds_hl (field f "c"))) nodes;
    let mk h =
      let (k, f) = Hashtbl.find nodes h in
      let ty = ds_type k in
      let rawname = if f.(1) = "-" then [] else dec f.(1) in
      let name =
        match ty with
        | TElement | TAttr -> (match Hashtbl.find_opt xs h with Some (_, Some q) -> q | _ -> rawname)
        | TPi | TEntityRef | TDoctype -> rawname
        | TCharRef ->
          (* "&#65;" -> "#65" *)
          (match rawname with
           | _ :: t -> (match List.rev t with _ :: r -> List.rev r | [] -> [])
           | [] -> [])
        | _ -> [] in
      let value = match ty with
        | TText | TCData | TComment | TPi -> if f.(2) = "~" || f.(2) = "!" then [] else dec f.(2)
        | _ -> [] in
      let par = match ty with
        | TAttr -> (match field f "ow" with "~" | "-" | "?" -> None | s -> Some (n_of_int (int_of_string s)))
        | _ -> (match Hashtbl.find_opt parent h with Some p -> Some (n_of_int p) | None -> None) in
      let ch = List.map n_of_int (ds_hl (field f "c")) in
      let at = match ty with TElement -> List.map n_of_int (ds_hl (field f "n") @ ds_hl (field f "a")) | _ -> [] in
      { n_type = ty; n_name = name; n_value = value; n_parent = par; n_children = ch; n_attrs = at;
        n_entities = (match Hashtbl.find_opt ents h with Some l -> l | None -> []) } in
    let docs = List.init ndocs (fun d ->
      let root = ref 0 in
      let tbl = List.init nh (fun h ->
        if Hashtbl.mem nodes h && doc_of_h h = d then begin
          let nd = mk h in
          if nd.n_type = TDocument then root := h;
          Some nd end else None) in
      { d_nodes = tbl; d_root = n_of_int !root }) in
    (* ---- the operation ---- *)
    let f = Array.of_list (ds_split ':' opw) in
    let h k = if k < Array.length f then (match int_of_string_opt f.(k) with
        | Some x when x >= 0 && x < nh -> Some (n_of_int (doc_of_h x), n_of_int x) | _ -> None) else None in
    let s k = if k < Array.length f then dec f.(k) else [] in
    let num k = if k < Array.length f then (if f.(k) = "max" then ds_usize_max else
        match int_of_string_opt f.(k) with Some x -> n_of_int x | None -> N0) else N0 in
    let op : aop option =
      match f.(0), h 1 with
      | _, None -> None
      | "AC", Some r -> (match h 2 with Some n -> Some (AAppendChild (r, n)) | None -> None)
      | "RM", Some r -> (match h 2 with Some n -> Some (ARemoveChild (r, n)) | None -> None)
      | "IB", Some r -> (match h 2, h 3 with Some n, Some x -> Some (AInsertBefore (r, n, x)) | _ -> None)
      | "RC", Some r -> (match h 2, h 3 with Some n, Some x -> Some (AReplaceChild (r, n, x)) | _ -> None)
      | "SA", Some r -> Some (ASetAttribute (r, s 2, s 3))
      | "RA", Some r -> Some (ARemoveAttribute (r, s 2))
      | "NR", Some r -> Some (ARemoveNamedItem (r, s 2))
      | "SAN", Some r -> (match h 2 with Some a -> Some (ASetAttributeNode (r, a)) | None -> None)
      | "RAN", Some r -> (match h 2 with Some a -> Some (ARemoveAttributeNode (r, a)) | None -> None)
      | "NS", Some r -> (match h 2 with Some a -> Some (ASetNamedItem (r, a)) | None -> None)
      | "CE", Some r -> Some (ACreateElement (r, s 2))
      | "CA", Some r -> Some (ACreateAttribute (r, s 2))
      | "CT", Some r -> Some (ACreateTextNode (r, s 2))
      | "CC", Some r -> Some (ACreateComment (r, s 2))
      | "CD", Some r -> Some (ACreateCDataSection (r, s 2))
      | "CP", Some r -> Some (ACreateProcessingInstruction (r, s 2, s 3))
      | "CR", Some r -> Some (ACreateEntityReference (r, s 2))
      | "CF", Some r -> Some (ACreateDocumentFragment r)
      | "SV", Some r -> Some (ASetNodeValue (r, s 2))
      | "SD", Some r -> Some (ASetData (r, s 2))
      | "AD", Some r -> Some (AAppendData (r, s 2))
      | "ID", Some r -> Some (AInsertData (r, num 2, s 3))
      | "DD", Some r -> Some (ADeleteData (r, num 2, num 3))
      | "RD", Some r -> Some (AReplaceData (r, num 2, num 3, s 4))
      | "ST", Some r -> Some (ASplitText (r, num 2))
      | "PD", Some r -> Some (APISetData (r, s 2))
      | _ -> None in
    (* NZ:<h>:<view>  Element.normalize -- the extracted [dom_normalize] of Spec/DomL1.v (reading R7) applied to the state
       rebuilt from the dump, like every other call.  The third field is the view in which the implementation made the
       call (`r` raw, `m` merged text; checks/dom13.py spec_op adds it).
       - raw view: result class and state are those of [dom_normalize] (the rung proved for the model is
         Properties/C13.v C13_normalize_refines).
       - merged-text view: the child lists the API shows hold no Text nodes (every maximal run of character data is one
         ExpandedText), so "no adjacent Text nodes" already holds of what the caller sees and the call has nothing to do:
         the RESULT CLASS is still the one of [dom_normalize] (ok on an Element, not offered elsewhere), the expected
         STATE is the unchanged raw tree of the dump.  This reading is explicit here and nowhere hidden in the
         specification: Properties/C13.v C13_normalize_merged_view (the model leaves the world as it is in that view)
         and C13_normalize_merged_view_not_raw (seen through the raw abstraction that call does NOT refine
         [dom_normalize]: the raw tree may keep adjacent Text nodes).
       A missing or unknown view field is answered `crash` (a deviation of clause spec-crash), never guessed. *)
    let nz_bad_view = ref false in
    let (a1, oc) = match op with
      | Some o -> dom_step docs o
      | None when f.(0) = "NZ" ->
        (match h 1 with
         | None -> (docs, ANotOffered)
         | Some r ->
           let (a2, oc2) = dom_normalize docs r in
           (match (if Array.length f > 2 then f.(2) else "") with
            | "r" -> (a2, oc2)
            | "m" -> (docs, oc2)
            | _ -> nz_bad_view := true; (docs, oc2)))
      | None when List.mem f.(0) ["ES"; "ESI"; "ER"; "TS"; "TSI"; "TR"] ->
        (match ds_ro_op nodes rest f h with Some o -> dom_step_ro docs o | None -> (docs, ANotOffered))
      | None -> (docs, ANotOffered) in
    (* ---- handles ---- *)
    let index = Hashtbl.create 64 in
    let hs = ref [] in let cnt = ref 0 in
    let intern (d : int) (i : int) =
      match Hashtbl.find_opt index (d, i) with
      | Some x -> x
      | None -> let x = !cnt in Hashtbl.replace index (d, i) x; hs := (d, i) :: !hs; incr cnt; x in
    for x = 0 to nh - 1 do ignore (intern (doc_of_h x) x) done;
    let getn d i = aget a1 (n_of_int d, n_of_int i) in
    let res = match oc with
      | _ when !nz_bad_view -> "crash"
      | ADone AUnit -> "ok"
      | ADone ANull -> "ok:~"
      | ADone (ANode (d, i)) -> "ok:" ^ string_of_int (intern (int_of_n d) (int_of_n i))
      | ARaised (Dom e) -> "err:" ^ ds_exc e
      | ARaised Refused -> "err:refused"
      | AUnspecified -> "unspecified"
      | ANotOffered -> "na"
      | APanicked -> "panic" in
    (* scan *)
    let k = ref 0 in
    while !k < !cnt do
      let (d, i) = List.nth (List.rev !hs) !k in
      (match getn d i with
       | Some nd ->
         let ids l = List.map int_of_n l in
         (match nd.n_type with
          | TElement ->
            let isns x = match getn d x with Some an -> is_ns_name an.n_name | None -> false in
            let at = ids nd.n_attrs in
            List.iter (fun x -> ignore (intern d x)) (List.filter isns at @ List.filter (fun x -> not (isns x)) at @ ids nd.n_children)
          | TAttr | TDocument -> List.iter (fun x -> ignore (intern d x)) (ids nd.n_children)
          | _ -> ())
       | None -> ());
      incr k
    done;
    let table = Array.of_list (List.rev !hs) in
    let hof d i = match Hashtbl.find_opt index (d, i) with Some x -> string_of_int x | None -> "?" in
    let b = Buffer.create 2048 in
    Buffer.add_string b (res ^ " #");
    Array.iteri (fun x (d, i) ->
      match getn d i with
      | None -> Buffer.add_string b (Printf.sprintf " %d=gone" x)
      | Some nd ->
        let name = match nd.n_type with
          | TElement | TAttr | TPi | TEntityRef | TCharRef | TDoctype -> enc nd.n_name | _ -> "-" in
        let data = match nd.n_type with TText | TCData | TComment | TPi -> enc nd.n_value | _ -> "~" in
        let lst l = if l = [] then "-" else String.concat "." l in
        let par = match nd.n_type, nd.n_parent with
          | TAttr, _ | _, None -> "~"
          | _, Some p -> hof d (int_of_n p) in
        let ow = match nd.n_type, nd.n_parent with
          | TAttr, Some p -> hof d (int_of_n p) | _, _ -> "~" in
        let at = List.sort compare (List.map (fun y -> match Hashtbl.find_opt index (d, int_of_n y) with Some z -> z | None -> -1) nd.n_attrs) in
        Buffer.add_string b (Printf.sprintf " %d=%s/%s/%s/p=%s/c=%s/a=%s/ow=%s" x (ds_type_name nd.n_type) name data par
          (lst (List.map (fun y -> hof d (int_of_n y)) nd.n_children))
          (lst (List.map string_of_int at)) ow)) table;
    Buffer.contents b)
