(** * C13 for the mutators of the read-only maps of a document type (Model/DomReadOnly.v): failure atomicity and no
    panic along histories that contain them, and the outcome is the exception DOM Level 1 specifies
    ([dom_step_ro] of Spec/DomL1ReadOnly.v, reading R8) on the abstraction of the world *)
From Coq Require Import List NArith Bool.
From XmlRs Require Import Base.CPred Model.Store Model.DomOps Model.DomNormalize Model.DomReadOnly
  Proofs.DomBase Proofs.DomTree Proofs.DomOpsInv Proofs.DomL1Abs Proofs.DomL1NoPanic Proofs.DomL1Atomic Proofs.DomL1Refine
  Proofs.DomL1RefineValue Proofs.DomL1RefineInv
  Proofs.DomNormalizeHist Proofs.DomNormalizeC12 Proofs.DomNormalizeC13 Proofs.DomReadOnly.
From XmlRs Require Spec.DomCharData Spec.DomL1 Spec.DomL1ReadOnly.
Import ListNotations.
Open Scope N_scope.

(** ** failure atomicity *)
Lemma lift_failed o e : lift_outcome o = XFailed e -> exists e', o = Failed e' /\ e = XExc e'.
Proof. destruct o as [r|e'| |]; cbn [lift_outcome]; intros H; try discriminate. exists e'. split; congruence. Qed.

Lemma lift_panicked o : lift_outcome o = XPanicked -> o = Panicked.
Proof. destruct o; cbn [lift_outcome]; intros H; try discriminate. reflexivity. Qed.

(** the side condition of [failure_atomic_reachable_with_normalize], for the extended histories *)
Definition atomic_side (o : xop) : Prop :=
  match o with
  | XN (Op p) => is_set_attribute p = false
  | XN (Normalize _ _) => True
  | XRo _ => True
  end.

Theorem failure_atomic_reachable_with_readonly : forall init xs o e,
  WInv init -> atomic_side o ->
  snd (step_x (run_x init xs) o) = XFailed e -> fst (step_x (run_x init xs) o) = run_x init xs.
Proof.
  intros init xs [o|o] e Hi Hs Hf.
  - cbn [step_x fst snd] in *. destruct (lift_failed _ _ Hf) as [e' [E _]].
    rewrite run_x_erase in *.
    apply (failure_atomic_reachable_with_normalize init (nops_of xs) o e' Hi); [|exact E].
    destruct o as [p|m r]; exact Hs.
  - apply step_x_ro_world.
Qed.

(** a refused call on a read-only map leaves the world as it was -- whatever the world *)
Theorem readonly_failure_atomic : forall w o e, snd (step_ro w o) = XFailed e -> fst (step_ro w o) = w.
Proof. intros w o e _. apply step_ro_world. Qed.

(** ** no panic *)
Theorem step_ro_no_panic : forall w o, snd (step_ro w o) <> XPanicked.
Proof. intros w o. destruct (step_ro_cases w o) as [E|E]; rewrite E; discriminate. Qed.

Theorem run_x_no_panic : forall xs w, forallb (fun o => negb (Known42 o)) (plain_ops (nops_of xs)) = true ->
  forall pre o post, xs = pre ++ o :: post -> snd (step_x (run_x w pre) o) <> XPanicked.
Proof.
  intros xs w H pre [o|o] post E; subst xs.
  - cbn [step_x snd]. intros P. apply lift_panicked in P. rewrite run_x_erase in P.
    rewrite nops_of_app in H. cbn [nops_of] in H.
    exact (run_n_no_panic _ w H (nops_of pre) o (nops_of post) eq_refl P).
  - cbn [step_x]. apply step_ro_no_panic.
Qed.

Theorem inv2_reachable_with_readonly : forall init xs, WInv2 init -> WInv2 (run_x init xs).
Proof. intros init xs. apply (run_x_invariant WInv2). intros nops w. apply inv2_reachable_with_normalize. Qed.

(** ** the specified exception: the abstraction to Spec/DomL1ReadOnly.v *)
Definition abs_ro_map (m : ro_map) : DomL1ReadOnly.amap :=
  match m with MEntities => DomL1ReadOnly.AEntities | MNotations => DomL1ReadOnly.ANotations end.

Definition abs_ro_key (k : ro_key) : DomL1ReadOnly.akey :=
  match k with ByName n => DomL1ReadOnly.AByName n | ByIndex i => DomL1ReadOnly.AByIndex i end.

Definition abs_ro_op (o : ro_op) : DomL1ReadOnly.aro_op :=
  match o with
  | MapSetNamedItem m r src k d => DomL1ReadOnly.AMapSetNamedItem (abs_ro_map m) r src (abs_ro_key k) d
  | MapRemoveNamedItem m r name => DomL1ReadOnly.AMapRemoveNamedItem (abs_ro_map m) r name
  end.

Definition xexc_class (e : xexc) : DomL1.aexc :=
  match e with
  | XExc e => exc_class e
  | XNoModificationAllowedErr => DomL1.Dom DomCharData.NoModificationAllowedErr
  end.

Definition xoutcome_class (o : xoutcome) : DomL1.aoutcome :=
  match o with
  | XOk RUnit => DomL1.ADone DomL1.AUnit
  | XOk RNone => DomL1.ADone DomL1.ANull
  | XOk (RNode n) => DomL1.ADone (DomL1.ANode n)
  | XFailed e => DomL1.ARaised (xexc_class e)
  | XPanicked => DomL1.APanicked
  | XNotApplicable => DomL1.ANotOffered
  end.

Lemma xoutcome_class_lift o : xoutcome_class (lift_outcome o) = outcome_class o.
Proof. destruct o as [[| |n]|e| |]; reflexivity. Qed.

(** the statement of refinement for one call on a read-only map *)
Definition refines_ro_on (w : world) (o : ro_op) : Prop :=
  abs (fst (step_ro w o)) = fst (DomL1ReadOnly.dom_step_ro (abs w) (abs_ro_op o))
  /\ xoutcome_class (snd (step_ro w o)) = snd (DomL1ReadOnly.dom_step_ro (abs w) (abs_ro_op o)).

(** the item of the document type a handle stands for *)
Definition doctype_item (w : world) (r : nref) : option item :=
  match doctype_ref w r with
  | Some d => match doc_at w (fst d) with Some s => get s (snd d) | None => None end
  | None => None
  end.

Lemma find_has_kind s k l d : find (has_kind s k) l = Some d -> exists it, get s d = Some it.
Proof.
  intros F. apply find_some in F. destruct F as [_ F]. unfold has_kind in F.
  destruct (get s d) as [it|]; [exists it; reflexivity | discriminate].
Qed.

Lemma doctype_ref_item w r d : doctype_ref w r = Some d -> exists it, doctype_item w r = Some it.
Proof.
  unfold doctype_item. intros E. rewrite E. unfold doctype_ref in E.
  destruct (doc_at w (fst r)) as [s|] eqn:D; [|discriminate].
  unfold kind_of in E. destruct (get s (snd r)) as [it|] eqn:G; cbn [option_map] in E; [|discriminate].
  destruct (ikind it) eqn:K; try discriminate.
  - destruct (doc_decl s) as [x|] eqn:F; [|discriminate]. injection E as <-. cbn [fst snd]. rewrite D.
    exact (find_has_kind s KDt _ x F).
  - injection E as <-. rewrite D. exists it. exact G.
Qed.

Lemma ro_doctype_abs w (r : nref) : WInv w -> DomL1ReadOnly.ro_doctype (abs w) r = option_map abs_item (doctype_item w r).
Proof.
  intros Hw. unfold DomL1ReadOnly.ro_doctype, doctype_item, doctype_ref. rewrite doc_of_abs.
  change (@fst N N r) with (@fst N id r).
  destruct (doc_at w (@fst N id r)) as [s|] eqn:D; cbn [option_map].
  2:{ change (@fst N id r) with (@fst N N r) in D. rewrite ?D. reflexivity. }
  rewrite (aget_abs w r s Hw D). unfold kind_of.
  pose proof D as D'. change (@fst N id r) with (@fst N N r) in D'. rewrite ?D'.
  destruct (get s (snd r)) as [it|] eqn:G; cbn [option_map]; [|reflexivity].
  cbn [abs_item DomL1.n_type].
  destruct (ikind it) eqn:K; cbn [abs_type]; try reflexivity.
  - rewrite (doctype_of_abs s (doc_at_P TreeInv w _ s Hw D)).
    destruct (doc_decl s) as [x|]; [|reflexivity]. cbn [fst snd]. rewrite ?D, ?D'. reflexivity.
  - rewrite ?D, ?D'. rewrite G. reflexivity.
Qed.

Lemma ent_name_abs e : fst (abs_ent e) = ent_name e.
Proof. destruct e as [|c t]; [reflexivity|]. destruct c; reflexivity. Qed.

Lemma entity_names_abs it : map fst (DomL1.n_entities (abs_item it)) = map ent_name (ients it).
Proof. cbn [abs_item DomL1.n_entities]. rewrite map_map. apply map_ext. exact ent_name_abs. Qed.

Lemma key_found_abs names k : DomL1ReadOnly.key_found names (abs_ro_key k) = key_present names k.
Proof. destruct k as [n|i]; reflexivity. Qed.

Lemma entity_names_item w r d it :
  doctype_ref w r = Some d -> doctype_item w r = Some it -> entity_names w d = map ent_name (ients it).
Proof.
  unfold doctype_item, entity_names. intros E. rewrite E.
  destruct (doc_at w (fst d)) as [s|]; [|discriminate]. intros ->. reflexivity.
Qed.

Lemma arg_exists_abs w m src k d : WInv w ->
  DomL1ReadOnly.ro_arg_exists (abs w) (abs_ro_map m) src (abs_ro_key k) d = arg_exists w m src k d.
Proof.
  intros Hw. unfold DomL1ReadOnly.ro_arg_exists, arg_exists. rewrite (ro_doctype_abs w src Hw).
  destruct (doctype_ref w src) as [t|] eqn:E.
  - destruct (doctype_ref_item w src t E) as [it I]. rewrite I. cbn [option_map].
    destruct m; cbn [abs_ro_map]; [|reflexivity].
    rewrite entity_names_abs, key_found_abs, (entity_names_item w src t it E I). reflexivity.
  - unfold doctype_item. rewrite E. reflexivity.
Qed.

Theorem step_ro_refines : forall w o, WInv w -> refines_ro_on w o.
Proof.
  intros w o Hw. unfold refines_ro_on. rewrite step_ro_world.
  destruct o as [m r src k d|m r name]; cbn [abs_ro_op DomL1ReadOnly.dom_step_ro step_ro].
  - rewrite (ro_doctype_abs w r Hw), (arg_exists_abs w m src k d Hw).
    destruct (doctype_ref w r) as [t|] eqn:E.
    + destruct (doctype_ref_item w r t E) as [it I]. rewrite I. cbn [option_map].
      destruct (arg_exists w m src k d); split; reflexivity.
    + unfold doctype_item. rewrite E. split; reflexivity.
  - rewrite (ro_doctype_abs w r Hw).
    destruct (doctype_ref w r) as [t|] eqn:E.
    + destruct (doctype_ref_item w r t E) as [it I]. rewrite I. split; reflexivity.
    + unfold doctype_item. rewrite E. split; reflexivity.
Qed.

Theorem step_ro_refines_reachable : forall init xs o, WInv init -> refines_ro_on (run_x init xs) o.
Proof. intros init xs o Hi. apply step_ro_refines. apply tree_inv_reachable_with_readonly. exact Hi. Qed.

Theorem step_ro_conforms : forall w o, WInv w ->
  DomL1ReadOnly.conforms_ro (abs w) (abs_ro_op o) (abs (fst (step_ro w o))) (xoutcome_class (snd (step_ro w o))).
Proof. intros w o Hw. exact (step_ro_refines w o Hw). Qed.

(** the exception class of the model IS the DOM Level 1 code, and the specification raises it exactly when the call
    can be written: on a world with the tree invariant the specification's answer is decided by [ro_applicable] *)
Theorem spec_ro_answer : forall w o, WInv w ->
  DomL1ReadOnly.dom_step_ro (abs w) (abs_ro_op o) =
  (abs w, if ro_applicable w o then DomL1.ARaised (DomL1.Dom DomCharData.NoModificationAllowedErr) else DomL1.ANotOffered).
Proof.
  intros w o Hw. destruct (step_ro_refines w o Hw) as [A B]. rewrite step_ro_world in A.
  rewrite (surjective_pairing (DomL1ReadOnly.dom_step_ro (abs w) (abs_ro_op o))). rewrite <- A, <- B.
  rewrite step_ro_outcome. destruct (ro_applicable w o); reflexivity.
Qed.

(** the specification itself never changes the state on these calls (no hypothesis) *)
Theorem dom_step_ro_state : forall a o, fst (DomL1ReadOnly.dom_step_ro a o) = a.
Proof.
  intros a [m r src k d|m r name]; cbn [DomL1ReadOnly.dom_step_ro]; destruct (DomL1ReadOnly.ro_doctype a r); try reflexivity.
  destruct (DomL1ReadOnly.ro_arg_exists a m src k d); reflexivity.
Qed.

(** the example world of Proofs/DomReadOnly.v *)
Example ro_example13 :
  refines_ro_on ro_world (MapRemoveNamedItem MEntities (0, 1) [122])
  /\ snd (DomL1ReadOnly.dom_step_ro (abs ro_world) (abs_ro_op (MapRemoveNamedItem MEntities (0, 1) [122])))
     = DomL1.ARaised (DomL1.Dom DomCharData.NoModificationAllowedErr)
  /\ snd (DomL1ReadOnly.dom_step_ro (abs ro_world) (abs_ro_op (MapSetNamedItem MEntities (0, 1) (0, 2) (ByName [117]) false)))
     = DomL1.ARaised (DomL1.Dom DomCharData.NoModificationAllowedErr)
  /\ snd (DomL1ReadOnly.dom_step_ro (abs ro_world) (abs_ro_op (MapSetNamedItem MEntities (0, 1) (1, 1) (ByName [117]) false)))
     = DomL1.ANotOffered.
Proof.
  split; [apply step_ro_refines; exact ro_world_inv|].
  split; [vm_compute; reflexivity|]. split; vm_compute; reflexivity.
Qed.
