(** * C01, [parse_render] on the side of the MODEL: the information set that the DOM accessors expose for the
    rendering of a valid abstract document is the one the document denotes.

    Rung (i), documents without a document type declaration: [dom_view_render_nodoctype]. *)
From Coq Require Import List NArith Arith Lia Bool.
From XmlRs Require Import Base.CPred Model.Peg Model.ParseActions Model.Info Model.DomView
  Proofs.XmlWFSyntaxLex Proofs.XmlWFSyntaxCheck Proofs.DomViewBase Proofs.DomViewDoc.
From XmlRs Require Spec.XmlWF Spec.Infoset Proofs.XmlWFSyntaxConvCheck Proofs.XmlWFSyntaxRenderDoc Proofs.XmlWFSyntaxRenderTokens Proofs.DomViewRender.
Import ListNotations.
Local Open Scope N_scope.

Module R := Proofs.DomViewRender.

Lemma denote2_same (d : Infoset.adoc) : forallb nonempty_text (R.denote2 d) = true -> R.denote2 d = Infoset.denote d.
Proof.
  unfold R.denote2, Infoset.denote. destruct (W.check_doc (Infoset.to_xdoc d)) as [r|root]; [reflexivity|]. apply doc_tokens2_same.
Qed.

(** ** rung (i) *)
Theorem dom_view_render_nodoctype (d : Infoset.adoc) (c : Infoset.choices) (doc : document) :
  Infoset.valid d = true -> Infoset.a_doctype d = None -> from_raw (Infoset.render d c) = OOk ([], doc) ->
  dom_view false doc = Infoset.denote d
  /\ (R.has_empty_text (Infoset.a_root d) = false -> dom_view true doc = R.denote2 d)
  /\ (R.Known_WF14 d = false -> dom_view true doc = Infoset.denote d).
Proof.
  intros Hv Hdt H.
  destruct (Proofs.XmlWFSyntaxRenderDoc.render_wf_nodoctype d c Hv Hdt) as [Hwf Hnd].
  destruct (Proofs.XmlWFSyntaxConvCheck.wf_nodoctype_accepted _ Hwf Hnd) as (doc0 & Hdoc0 & Hn & Hk).
  destruct (dom_view_nodoctype _ doc H Hn Hk) as (xd & root & Hp & Hu & Hc & Hraw & Hmer).
  assert (Hm2 : R.has_empty_text (Infoset.a_root d) = false -> dom_view true doc = R.denote2 d).
  { intros Hne. destruct (R.render_infoset2_nodoctype d c Hv Hdt Hne) as (xd' & root' & Hp' & _ & Hc' & Ht').
    rewrite Hp in Hp'. injection Hp' as <-. rewrite Hc in Hc'. injection Hc' as <-. rewrite Hmer. exact Ht'. }
  split; [|split].
  - destruct (Proofs.XmlWFSyntaxRenderTokens.render_infoset_nodoctype d c Hv Hdt) as (xd' & root' & Hp' & _ & Hc' & Ht').
    rewrite Hp in Hp'. injection Hp' as <-. rewrite Hc in Hc'. injection Hc' as <-. rewrite Hraw. exact Ht'.
  - exact Hm2.
  - intros Hkn. unfold R.Known_WF14 in Hkn. apply orb_false_iff in Hkn. destruct Hkn as [Hne Hkn]. apply negb_false_iff in Hkn.
    rewrite (Hm2 Hne). apply denote2_same. exact Hkn.
Qed.
