(** * C04, rung 2: attributes, tags, content and elements.

    For every infoset element [i] that satisfies [item_wf] (the lexical invariants of rung 1 on its
    names, attribute values, texts, comments, PIs, CDATA sections and references, relative to the
    entity table [ents] / the flag [ext] it was built with) and every continuation [r]:

        exists e, yields (NT nt_element) (d_item false i ++ r) (VElement e) r
                  /\ build_element ents ext e = IOk i

    i.e. the compact print of [i] is consumed exactly by the [element] production, and the element
    it denotes builds back to [i] itself -- by induction on the element tree, for trees of any
    depth and width. *)
From Coq Require Import List NArith Arith Lia Bool.
From XmlRs Require Import Base.CPred Model.Peg Gen.XmlcharGen Gen.GrammarXmlGen Model.ParseActions
     Model.Info Model.Display Proofs.PegTermination Proofs.PegLemmas Proofs.Expansion Proofs.DisplayLex
     Proofs.ActionLemmas.
Import ListNotations.
Local Open Scope N_scope.

(** ** small string facts *)
Lemma prefix_longer_none (a b s : str) : prefix a s = None -> prefix (a ++ b) s = None.
Proof.
  revert s. induction a as [|x a IH]; intros s; cbn [prefix app]; [discriminate|].
  destruct s as [|y s]; [reflexivity|]. destruct (x =? y); [apply IH|reflexivity].
Qed.

Lemma app_cons_assoc {A} (a : list A) x b : a ++ x :: b = (a ++ [x]) ++ b.
Proof. rewrite <- app_assoc. reflexivity. Qed.

Section Elem.
Variable ents : list entity.
Variable ext : bool.

(** ** attribute values *)
Definition un_avalue (v : avalue) : att_value :=
  match v with
  | XaChar _ num r => AvReference (RefChar num r)
  | XaEntity e => AvReference (RefEntity (en_name e))
  | XaText s => AvText s
  end.

Definition quote_of (l : list avalue) : N := if existsb (N.eqb 34) (d_avalues l) then 39 else 34.

Lemma quote_of_cases l : quote_of l = 34 \/ quote_of l = 39.
Proof. unfold quote_of. destruct (existsb _ _); auto. Qed.

Lemma escape_quote l : escape (d_avalues l) = quote_of l :: d_avalues l ++ [quote_of l].
Proof. unfold escape, quote_of. destruct (existsb _ _); reflexivity. Qed.

(** [attribute]: the value is used in an attribute (true) or in a default of an ATTLIST, where only
    the predefined entities resolve; [q] the quote the printer will choose *)
Definition avalue_wf (tbl : list entity) (x : bool) (q : N) (v : avalue) : Prop :=
  match v with
  | XaText s => s <> [] /\ forallb (eval (is_char_except [60;38;q])) s = true
  | XaChar t num r => reference_ok (RefChar num r) /\ exists c, char_from num r = IOk c /\ t = [c]
  | XaEntity e => name_ok (en_name e) /\ resolve_ref tbl x true (en_name e) = IOk e
  end.

Fixpoint no_adjacent_text (after_text : bool) (l : list avalue) : Prop :=
  match l with
  | [] => True
  | XaText _ :: l' => after_text = false /\ no_adjacent_text true l'
  | _ :: l' => no_adjacent_text false l'
  end.

Definition values_wf (tbl : list entity) (x : bool) (l : list avalue) : Prop :=
  no_adjacent_text false l /\ Forall (avalue_wf tbl x (quote_of l)) l.

Lemma d_av_un l : d_av (map un_avalue l) = d_avalues l.
Proof.
  unfold d_av, d_avalues. induction l as [|v l IH]; cbn [map flat_map]; [reflexivity|]. rewrite IH. f_equal.
  destruct v as [t num [|]|e|s]; reflexivity.
Qed.

Lemma av_ok_un tbl x q l : forall b, no_adjacent_text b l -> Forall (avalue_wf tbl x q) l -> av_ok q b (map un_avalue l).
Proof.
  induction l as [|v l IH]; intros b Hadj Hall; cbn [map av_ok]; [exact I|].
  inversion Hall as [|v' l' Hv Hl]; subst. destruct v as [t num r|e|s]; cbn [un_avalue av_ok no_adjacent_text avalue_wf] in *.
  - destruct Hv as [Hr _]. split; [exact Hr|apply IH; assumption].
  - destruct Hv as [Hn _]. split; [exact Hn|apply IH; assumption].
  - destruct Hadj as [Hb Hadj]. destruct Hv as [Hne Hs]. repeat split; try assumption. apply IH; assumption.
Qed.

Lemma build_avalues_un tbl x q l : Forall (avalue_wf tbl x q) l -> build_avalues tbl x (map un_avalue l) = IOk l.
Proof.
  induction 1 as [|v l Hv _ IH]; cbn [map build_avalues]; [reflexivity|].
  destruct v as [t num r|e|s]; cbn [un_avalue build_avalue avalue_wf] in *.
  - destruct Hv as [_ [c [Hc ->]]]. rewrite Hc. cbn [ibind]. rewrite IH. reflexivity.
  - destruct Hv as [_ Hr]. rewrite Hr. cbn [ibind]. rewrite IH. reflexivity.
  - destruct Hv as [Hne _]. destruct s as [|c s]; [contradiction|]. cbn [ibind]. rewrite IH. reflexivity.
Qed.

(** no piece of a well-formed value prints the quote chosen for it *)
Lemma name_ok_no_quote (n : str) q : q = 34 \/ q = 39 -> name_ok n -> existsb (N.eqb q) n = false.
Proof.
  intros Hq. unfold name_ok. induction n as [|c n IH]; cbn [forallb existsb]; [reflexivity|].
  intros H. apply andb_prop in H. destruct H as [Hc Hn]. rewrite (IH Hn), orb_false_r.
  destruct (N.eqb_spec q c) as [<-|]; [|reflexivity]. destruct Hq as [-> | ->]; vm_compute in Hc; discriminate.
Qed.

Lemma digits_no_quote (p : cpred) (n : str) q : eval p q = false -> forallb (eval p) n = true -> existsb (N.eqb q) n = false.
Proof.
  intros Hq. induction n as [|c n IH]; cbn [forallb existsb]; [reflexivity|].
  intros H. apply andb_prop in H. destruct H as [Hc Hn]. rewrite (IH Hn), orb_false_r.
  destruct (N.eqb_spec q c) as [<-|]; [congruence|reflexivity].
Qed.

Lemma existsb_app_false {A} (f : A -> bool) a b : existsb f a = false -> existsb f b = false -> existsb f (a ++ b) = false.
Proof. intros Ha Hb. rewrite existsb_app, Ha, Hb. reflexivity. Qed.

Lemma except_no_char (ex : list N) (s : str) q : In q ex -> forallb (eval (is_char_except ex)) s = true -> existsb (N.eqb q) s = false.
Proof.
  intros Hin. induction s as [|c s IH]; cbn [forallb existsb]; [reflexivity|].
  intros H. apply andb_prop in H. destruct H as [Hc Hs]. rewrite (IH Hs), orb_false_r.
  destruct (N.eqb_spec q c) as [<-|]; [|reflexivity]. exfalso.
  unfold is_char_except in Hc. cbn [eval] in Hc. apply andb_prop in Hc. destruct Hc as [_ Hc].
  apply negb_true_iff in Hc. assert (existsb (fun x => (x <=? q) && (q <? x + 1)) ex = true) as E.
  { apply existsb_exists. exists q. split; [exact Hin|]. rewrite N.leb_refl. cbn. apply N.ltb_lt. lia. }
  congruence.
Qed.

Lemma piece_no_quote tbl x q v : q = 34 \/ q = 39 -> avalue_wf tbl x q v -> existsb (N.eqb q) (d_avalue v) = false.
Proof.
  intros Hq. destruct v as [t num r|e|s]; cbn [avalue_wf d_avalue].
  - intros [Hr _]. unfold d_charref. destruct r; cbn [reference_ok] in Hr; destruct Hr as [_ Hd];
      (apply existsb_app_false; [destruct Hq as [-> | ->]; reflexivity|];
       apply existsb_app_false; [|destruct Hq as [-> | ->]; reflexivity];
       eapply digits_no_quote; [|exact Hd]; destruct Hq as [-> | ->]; reflexivity).
  - intros [Hn _]. unfold d_entref. change (38 :: en_name e ++ [59]) with ([38] ++ en_name e ++ [59]).
    apply existsb_app_false; [destruct Hq as [-> | ->]; reflexivity|].
    apply existsb_app_false; [apply name_ok_no_quote; assumption|destruct Hq as [-> | ->]; reflexivity].
  - intros [_ Hs]. eapply except_no_char; [|exact Hs]. cbn. tauto.
Qed.

Lemma values_no_quote tbl x l q : q = 34 \/ q = 39 -> Forall (avalue_wf tbl x q) l -> existsb (N.eqb q) (d_avalues l) = false.
Proof.
  intros Hq. induction 1 as [|v l Hv _ IH]; [reflexivity|]. unfold d_avalues. cbn [flat_map].
  apply existsb_app_false; [eapply piece_no_quote; eassumption|exact IH].
Qed.

Lemma quote_att_value_escape tbl x l : Forall (avalue_wf tbl x (quote_of l)) l ->
  quote_att_value (d_avalues l) = escape (d_avalues l).
Proof.
  intros H. unfold quote_att_value. destruct (existsb (N.eqb 34) (d_avalues l)) eqn:E; [|reflexivity].
  assert (quote_of l = 39) as Hq by (unfold quote_of; rewrite E; reflexivity).
  rewrite Hq in H. rewrite (values_no_quote tbl x l 39 (or_intror eq_refl) H). reflexivity.
Qed.

Theorem att_value_rt tbl x (l : list avalue) (r : str) : values_wf tbl x l ->
  yields (NT nt_att_value) (quote_att_value (d_avalues l) ++ r) (VList (map VAttValue (map un_avalue l))) r
  /\ build_avalues tbl x (map un_avalue l) = IOk l.
Proof.
  intros [Hadj Hall]. split; [|eapply build_avalues_un; exact Hall].
  rewrite (quote_att_value_escape tbl x l Hall).
  rewrite escape_quote. cbn [app]. rewrite <- app_assoc. cbn [app]. rewrite <- d_av_un.
  apply yields_att_value; [apply quote_of_cases|]. eapply av_ok_un; eassumption.
Qed.

(** ** attribute names *)
Definition mk_qname (prefix : option str) (local : str) : qname :=
  match prefix with Some p => Prefixed p local | None => Unprefixed local end.

Lemma d_name_qname prefix local : d_name prefix local = d_qname (mk_qname prefix local).
Proof. destruct prefix; reflexivity. Qed.

Lemma qname_parts_mk prefix local : qname_parts (mk_qname prefix local) = (local, prefix).
Proof. destruct prefix; reflexivity. Qed.

Definition un_attr_name (a : attr) : att_name :=
  match xa_prefix a with
  | Some p => if str_eqb p s_xmlns then AnNamespace (xa_local a) else AnQName (Prefixed p (xa_local a))
  | None => if str_eqb (xa_local a) s_xmlns then AnDefaultNamespace else AnQName (Unprefixed (xa_local a))
  end.

(** what the printer needs to know about an attribute name: `xmlns`, `xmlns:NCName`, or a QName
    (which may start with the letters xmlns: since 7bb463b the [attribute] production tries
    [ns_att_name = att_value] first and falls back to [qname = att_value]) *)
Definition attr_name_wf (a : attr) : Prop :=
  match xa_prefix a with
  | Some p => if str_eqb p s_xmlns then ncname_ok (xa_local a) else ncname_ok p /\ ncname_ok (xa_local a)
  | None => if str_eqb (xa_local a) s_xmlns then True else ncname_ok (xa_local a)
  end.

Lemma attribute_name_un a : attribute_name (un_attr_name a) = (xa_local a, xa_prefix a).
Proof.
  unfold un_attr_name. destruct (xa_prefix a) as [p|].
  - destruct (str_eqb p s_xmlns) eqn:E; [|reflexivity]. apply str_eqb_eq in E. subst p. reflexivity.
  - destruct (str_eqb (xa_local a) s_xmlns) eqn:E; [|reflexivity]. apply str_eqb_eq in E. rewrite E. reflexivity.
Qed.

Lemma body_attribute : body G_xml nt_attribute =
  Map L_model_Attribute_from
    (Alt (Seq (NT nt_ns_att_name) (SeqR (NT nt_eq) (NT nt_att_value)))
         (Seq (Map L_model_AttributeName_from (NT nt_qname)) (SeqR (NT nt_eq) (NT nt_att_value)))).
Proof. reflexivity. Qed.
Lemma body_ns_att_name : body G_xml nt_ns_att_name =
  Alt (Map L_model_AttributeName_from (SeqR (Tag [120;109;108;110;115;58]) (NT nt_ncname)))
      (Map L_closure_e50bdeb9 (Tag [120;109;108;110;115])).
Proof. reflexivity. Qed.

Lemma stops_eq_name : forall r : str, stops (eval is_name_char) (61 :: r).
Proof. reflexivity. Qed.
Lemma stops_eq_ncname : forall r : str, stops (eval (is_name_char_except [58])) (61 :: r).
Proof. reflexivity. Qed.

(** [prefix] against a longer input *)
Lemma prefix_none_app (a n : str) x (r : str) : prefix a n = None -> ~ In x a -> prefix a (n ++ x :: r) = None.
Proof.
  revert n. induction a as [|y a IH]; intros n H Hx; cbn [prefix] in *; [discriminate|].
  destruct n as [|z n]; cbn [app].
  - destruct (N.eqb_spec y x) as [->|]; [exfalso; apply Hx; left; reflexivity|reflexivity].
  - destruct (y =? z); [|reflexivity]. apply IH; [exact H|]. intros Hin. apply Hx. right. exact Hin.
Qed.

Lemma prefix_some_app (a n t s : str) : prefix a n = Some t -> prefix a (n ++ s) = Some (t ++ s).
Proof.
  revert n. induction a as [|y a IH]; intros n H; cbn [prefix] in *.
  - injection H as <-. reflexivity.
  - destruct n as [|z n]; [discriminate|]. cbn [app]. destruct (y =? z); [apply IH; exact H|discriminate].
Qed.

Lemma prefix_some_eq (a n t : str) : prefix a n = Some t -> n = a ++ t.
Proof.
  revert n. induction a as [|y a IH]; intros n H; cbn [prefix] in *.
  - injection H as <-. reflexivity.
  - destruct n as [|z n]; [discriminate|]. destruct (N.eqb_spec y z) as [<-|]; [|discriminate].
    cbn [app]. f_equal. apply IH. exact H.
Qed.

Lemma ws_cases c : eval ws c = true -> c = 32 \/ c = 9 \/ c = 13 \/ c = 10.
Proof.
  unfold ws. cbn [eval existsb]. unfold in_range. cbn [fst snd]. intros H.
  repeat (apply orb_prop in H; destruct H as [H|H]); try discriminate;
    apply andb_prop in H; destruct H as [H1 H2]; apply N.leb_le in H1; apply N.ltb_lt in H2; lia.
Qed.

Lemma name_except_not_ws c : eval (is_name_char_except [58]) c = true -> eval ws c = false.
Proof.
  intros H. destruct (eval ws c) eqn:E; [|reflexivity]. exfalso.
  destruct (ws_cases c E) as [->|[->|[->| ->]]]; vm_compute in H; discriminate.
Qed.

(** the [ns_att_name = att_value] alternative fails on a name whose first NCName [m] is not `xmlns`
    and is followed by ':' or '=' *)
Lemma ns_alt_fails (m : str) d (z : str) : ncname_ok m -> m <> s_xmlns -> d = 58 \/ d = 61 ->
  F (Seq (NT nt_ns_att_name) (SeqR (NT nt_eq) (NT nt_att_value))) (m ++ d :: z).
Proof.
  intros Hm Hne Hd. destruct (prefix s_xmlns m) as [t|] eqn:E.
  - pose proof (prefix_some_eq _ _ _ E) as En. destruct t as [|c t'].
    + rewrite app_nil_r in En. contradiction.
    + assert (eval (is_name_char_except [58]) c = true) as Hc.
      { subst m. unfold s_xmlns in Hm. cbn [app ncname_ok forallb] in Hm. destruct Hm as [_ Hm].
        do 4 (apply andb_prop in Hm; destruct Hm as [_ Hm]). apply andb_prop in Hm. tauto. }
      subst m. unfold s_xmlns. norm_app.
      eapply fails_seq_r.
      * apply parses_nt. rewrite body_ns_att_name. apply parses_alt_r.
        -- apply fails_map. apply fails_seqr_l. apply fails_tag. cbn [prefix]. rewrite !N.eqb_refl.
           destruct (N.eqb_spec 58 c) as [<-|]; [vm_compute in Hc; discriminate|reflexivity].
        -- apply parses_map. apply parses_tag_lit. cbn [prefix]. rewrite !N.eqb_refl. reflexivity.
      * apply fails_seqr_l. apply fails_nt. rewrite body_eq. eapply fails_seqr_r.
        -- apply parses_chars0_nil. cbn [stops]. apply name_except_not_ws. exact Hc.
        -- apply fails_seql_l. apply fails_tag. cbn [prefix].
           destruct (N.eqb_spec 61 c) as [<-|]; [vm_compute in Hc; discriminate|reflexivity].
  - assert (prefix s_xmlns (m ++ d :: z) = None) as Hn.
    { apply prefix_none_app; [exact E|]. unfold s_xmlns. cbn [In]. destruct Hd as [-> | ->]; intuition discriminate. }
    apply fails_seq_l. apply fails_nt. rewrite body_ns_att_name. apply fails_alt.
    + apply fails_map. apply fails_seqr_l. apply fails_tag. apply (prefix_longer_none s_xmlns [58]). exact Hn.
    + apply fails_map. apply fails_tag. exact Hn.
Qed.

(** ** attributes *)
Definition attr_wf (a : attr) : Prop := attr_name_wf a /\ values_wf ents ext (xa_values a).

Definition un_attr (a : attr) : attribute := Attribute (un_attr_name a) (map un_avalue (xa_values a)).

Lemma quote_head (v : str) : exists q t, quote_att_value v = q :: t /\ (q = 34 \/ q = 39).
Proof.
  unfold quote_att_value, escape. destruct (existsb (N.eqb 34) v && existsb (N.eqb 39) v); [eauto|].
  destruct (existsb (N.eqb 34) v); eauto.
Qed.

Theorem attribute_rt (a : attr) (r : str) : attr_wf a ->
  yields (NT nt_attribute) (d_attr a ++ r) (VAttribute (un_attr a)) r /\ build_attr ents ext (un_attr a) = IOk a.
Proof.
  intros [Hn Hv]. destruct (att_value_rt ents ext (xa_values a) r Hv) as [Hy Hb]. split.
  - apply yields_nt. rewrite body_attribute.
    apply (yields_map' (VPair (VAttName (un_attr_name a)) (VList (map VAttValue (map un_avalue (xa_values a)))))); [apply al_attribute|].
    assert (yields (SeqR (NT nt_eq) (NT nt_att_value)) (61 :: quote_att_value (d_avalues (xa_values a)) ++ r)
                   (VList (map VAttValue (map un_avalue (xa_values a)))) r) as Heq.
    { eapply yields_seqr; [|exact Hy]. apply parses_eq.
      destruct (quote_head (d_avalues (xa_values a))) as [q [t [-> Hq]]]. cbn [app].
      destruct Hq as [->| ->]; reflexivity. }
    unfold d_attr. rewrite <- app_assoc. cbn [app].
    unfold attr_name_wf, un_attr_name in *. destruct (xa_prefix a) as [p|]; cbn [d_name].
    + destruct (str_eqb p s_xmlns) eqn:E.
      * (* xmlns:local *) apply str_eqb_eq in E. subst p. apply yields_alt_l. eapply yields_seq; [|exact Heq].
        apply yields_nt. rewrite body_ns_att_name. apply yields_alt_l.
        apply (yields_map' (VStr (xa_local a))); [reflexivity|].
        unfold s_xmlns. norm_app. eapply yields_seqr; [tag|]. apply yields_str.
        apply parses_ncname; [exact Hn|apply stops_eq_ncname].
      * (* p:local *) destruct Hn as [Hp Hl]. rewrite <- app_assoc. cbn [app]. apply yields_alt_r.
        -- apply ns_alt_fails; [exact Hp| |left; reflexivity].
           intros ->. rewrite str_eqb_refl in E. discriminate.
        -- eapply yields_seq; [|exact Heq].
           apply (yields_map' (VQName (Prefixed p (xa_local a)))); [reflexivity|].
           exists (tree_qname (Prefixed p (xa_local a))). split; [|apply eval_tree_qname].
           pose proof (parses_qname (Prefixed p (xa_local a)) (61 :: quote_att_value (d_avalues (xa_values a)) ++ r)) as H.
           cbn [d_qname] in H. rewrite <- app_assoc in H. cbn [app] in H. apply H; [split; assumption|apply stops_eq_name].
    + destruct (str_eqb (xa_local a) s_xmlns) eqn:E.
      * (* xmlns *) apply str_eqb_eq in E. rewrite E. apply yields_alt_l. eapply yields_seq; [|exact Heq].
        apply yields_nt. rewrite body_ns_att_name. apply yields_alt_r.
        -- apply fails_map. apply fails_seqr_l. apply fails_tag. reflexivity.
        -- apply (yields_map' (VStr s_xmlns)); [reflexivity|]. apply yields_str. apply parses_tag.
      * apply yields_alt_r.
        -- apply ns_alt_fails; [exact Hn| |right; reflexivity].
           intros Heq'. rewrite Heq', str_eqb_refl in E. discriminate.
        -- eapply yields_seq; [|exact Heq].
           apply (yields_map' (VQName (Unprefixed (xa_local a)))); [reflexivity|].
           exists (tree_qname (Unprefixed (xa_local a))). split; [|apply eval_tree_qname].
           apply (parses_qname (Unprefixed (xa_local a))); [exact Hn|apply stops_eq_name].
  - unfold build_attr, un_attr. cbn [at_name at_value]. rewrite (attribute_name_un a), Hb. destruct a; reflexivity.
Qed.

(** ** the attribute list of a tag *)
Definition attr_item : pexpr := SeqR (Chars1 ws) (NT nt_attribute).

Lemma name_start_not_ws c : eval (is_name_start_char_except [58]) c = true -> eval ws c = false.
Proof.
  intros H. destruct (eval ws c) eqn:E; [|reflexivity]. exfalso.
  destruct (ws_cases c E) as [->|[->|[->| ->]]]; vm_compute in H; discriminate.
Qed.

Lemma ncname_head (n : str) : ncname_ok n -> exists c t, n = c :: t /\ eval (is_name_start_char_except [58]) c = true.
Proof. destruct n as [|c t]; [intros []|]. intros [H _]. eauto. Qed.

Lemma d_attr_head (a : attr) : attr_name_wf a -> exists c t, d_attr a = c :: t /\ eval ws c = false.
Proof.
  unfold attr_name_wf, d_attr, d_name. destruct (xa_prefix a) as [p|].
  - destruct (str_eqb p s_xmlns) eqn:E.
    + apply str_eqb_eq in E. subst p. intros _. unfold s_xmlns. cbn [app]. eexists. eexists. split; reflexivity.
    + intros [Hp _]. destruct (ncname_head p Hp) as [c [t [-> Hc]]]. cbn [app]. eexists. eexists.
      split; [reflexivity|apply name_start_not_ws; exact Hc].
  - destruct (str_eqb (xa_local a) s_xmlns) eqn:E.
    + apply str_eqb_eq in E. rewrite E. intros _. unfold s_xmlns. cbn [app]. eexists. eexists. split; reflexivity.
    + intros Hl. destruct (ncname_head _ Hl) as [c [t [-> Hc]]]. cbn [app]. eexists. eexists.
      split; [reflexivity|apply name_start_not_ws; exact Hc].
Qed.

(** [qname] (hence [attribute]) fails where no name can start *)
Lemma fails_ncname (s : str) : stops (eval (is_name_start_char_except [58])) s -> F (NT nt_ncname) s.
Proof.
  intros H. apply fails_nt. rewrite body_ncname. apply fails_recognize. apply fails_seq_l. apply fails_chars1. exact H.
Qed.

Lemma fails_qname (s : str) : stops (eval (is_name_start_char_except [58])) s -> F (NT nt_qname) s.
Proof.
  intros H. apply fails_nt. rewrite body_qname. apply fails_alt.
  - apply fails_map. apply fails_nt. rewrite body_prefixed_name. apply fails_map. apply fails_seq_l.
    apply fails_ncname. exact H.
  - apply fails_map. apply fails_ncname. exact H.
Qed.

Lemma fails_attribute (s : str) : stops (eval (is_name_start_char_except [58])) s ->
  prefix s_xmlns s = None -> F (NT nt_attribute) s.
Proof.
  intros H Hx. apply fails_nt. rewrite body_attribute. apply fails_map. apply fails_alt.
  - apply fails_seq_l. apply fails_nt. rewrite body_ns_att_name. apply fails_alt.
    + apply fails_map. apply fails_seqr_l. apply fails_tag. apply (prefix_longer_none s_xmlns [58]). exact Hx.
    + apply fails_map. apply fails_tag. exact Hx.
  - apply fails_seq_l. apply fails_map. apply fails_qname. exact H.
Qed.

(** the two ways a tag can go on after its attributes *)
Definition tag_tail (t : str) : Prop := (exists r, t = 32 :: 47 :: 62 :: r) \/ (exists r, t = 62 :: r).

Lemma attr_item_fails_tail (t : str) : tag_tail t -> F attr_item t.
Proof.
  intros [[r ->]|[r ->]].
  - eapply fails_seqr_r; [apply (parses_chars1 G_xml ws [32] (47 :: 62 :: r)); [discriminate|reflexivity|reflexivity]|].
    apply fails_attribute; reflexivity.
  - apply fails_seqr_l. apply fails_chars1. reflexivity.
Qed.

Lemma stops_ws_tail (t : str) : tag_tail t -> forall l, Forall attr_wf l ->
  stops (eval ws) (flat_map (fun a => 32 :: d_attr a) l ++ t) \/ exists u, flat_map (fun a => 32 :: d_attr a) l ++ t = 32 :: u.
Proof.
  intros Ht l Hl. destruct l as [|a l]; cbn [flat_map app]; [|right; eauto].
  destruct Ht as [[r ->]|[r ->]]; [right; eauto|left; reflexivity].
Qed.

Definition d_attrs (l : list attr) : str := flat_map (fun a => 32 :: d_attr a) l.

(** after a complete attribute: a space, or the end of the tag *)
Lemma after_attr_stops (t : str) l : tag_tail t -> stops (eval is_name_char) (d_attrs l ++ t) /\ True.
Proof.
  intros Ht. split; [|exact I]. destruct l as [|a l]; cbn [d_attrs flat_map app]; [|reflexivity].
  destruct Ht as [[r ->]|[r ->]]; reflexivity.
Qed.

Lemma attrs_many (t : str) : tag_tail t -> forall l, Forall attr_wf l ->
  many_yields attr_item (d_attrs l ++ t) (map VAttribute (map un_attr l)) t.
Proof.
  intros Ht. induction l as [|a l IH]; intros Hl; cbn [d_attrs flat_map map app].
  - apply my_stop. apply attr_item_fails_tail. exact Ht.
  - inversion Hl as [|a' l' Ha Hl']; subst. fold (d_attrs l). rewrite <- app_assoc.
    destruct (attribute_rt a (d_attrs l ++ t) Ha) as [Hy _].
    eapply my_step; [| |apply IH; exact Hl'].
    + eapply yields_seqr; [|exact Hy].
      destruct Ha as [Hn _]. destruct (d_attr_head a Hn) as [c [u [E Hc]]].
      apply (parses_chars1 G_xml ws [32]); [discriminate|reflexivity|]. rewrite E. cbn [app stops]. exact Hc.
    + unfold d_attrs. cbn [length]. rewrite (app_length (d_attr a)). unfold str, char in *. lia.
Qed.

Fixpoint attrs_nodup (before : list attribute) (l : list attribute) : Prop :=
  match l with
  | [] => True
  | a :: l' => existsb (fun v => att_name_eqb (at_name v) (at_name a)) before = false /\ attrs_nodup (before ++ [a]) l'
  end.

Lemma build_attrs_un (l : list attr) : Forall attr_wf l -> forall before, attrs_nodup before (map un_attr l) ->
  build_attrs_from ents ext before (map un_attr l) = IOk l.
Proof.
  induction 1 as [|a l Ha _ IH]; intros before Hnd; cbn [map build_attrs_from]; [reflexivity|].
  cbn [map attrs_nodup] in Hnd. destruct Hnd as [Hd Hnd]. rewrite Hd.
  destruct (attribute_rt a [] Ha) as [_ Hb]. rewrite Hb. cbn [ibind]. rewrite (IH _ Hnd). reflexivity.
Qed.

(** ** tags *)
Lemma body_stag : body G_xml nt_stag =
  Map L_model_Element_from (SeqR (Tag [60]) (SeqL (Seq (NT nt_qname) (Many0 attr_item)) (Seq (Chars0 ws) (Tag [62])))).
Proof. reflexivity. Qed.
Lemma body_empty_tag : body G_xml nt_empty_entity_tag =
  Map L_model_Element_from (SeqR (Tag [60]) (SeqL (Seq (NT nt_qname) (Many0 attr_item)) (Seq (Chars0 ws) (Tag [47;62])))).
Proof. reflexivity. Qed.
Lemma body_etag : body G_xml nt_etag = SeqR (Tag [60;47]) (SeqL (NT nt_qname) (Seq (Chars0 ws) (Tag [62]))).
Proof. reflexivity. Qed.
Lemma body_element : body G_xml nt_element =
  Alt (NT nt_empty_entity_tag)
      (Map L_closure_f7047233 (VerifyEq [Fst;InMap;Fst] [Snd;Snd] (Seq (NT nt_stag) (Seq (NT nt_content) (NT nt_etag))))).
Proof. reflexivity. Qed.

(** `<name attrs` up to the tail, shared by the two kinds of tag *)
Lemma tag_open_rt (q : qname) (attrs : list attr) (t : str) : qname_ok q -> Forall attr_wf attrs -> tag_tail t ->
  exists ta, P (Seq (NT nt_qname) (Many0 attr_item)) (d_qname q ++ d_attrs attrs ++ t) (TPair (tree_qname q) ta) t
             /\ eval_tree ta = VList (map VAttribute (map un_attr attrs)).
Proof.
  intros Hq Ha Ht. destruct (yields_many0 _ _ _ _ (attrs_many t Ht attrs Ha)) as [ta [Hp He]].
  exists ta. split; [|exact He]. eapply parses_seq; [|exact Hp].
  apply parses_qname; [exact Hq|]. apply (proj1 (after_attr_stops t attrs Ht)).
Qed.

Lemma tree_eqb_qname q : tree_eqb (tree_qname q) (tree_qname q) = true.
Proof. destruct q; cbn; rewrite ?str_eqb_refl; reflexivity. Qed.

(** ** content *)
Definition child_alt : pexpr :=
  Alt (Map L_model_Contents_from (NT nt_element)) (Alt (Map L_model_Contents_from (NT nt_reference))
  (Alt (Map L_model_Contents_from (NT nt_cdsect)) (Alt (Map L_model_Contents_from (NT nt_pi))
       (Map L_model_Contents_from (NT nt_comment))))).
Definition cell_expr : pexpr := Seq child_alt (Opt (NT nt_char_data)).

Lemma body_content : body G_xml nt_content =
  Map L_closure_11e3fda0 (Seq (Opt (NT nt_char_data)) (Many0 cell_expr)).
Proof. reflexivity. Qed.

(** where an element cannot start *)
Lemma fails_element_no_lt (s : str) : prefix [60] s = None -> F (NT nt_element) s.
Proof.
  intros H. apply fails_nt. rewrite body_element. apply fails_alt.
  - apply fails_nt. rewrite body_empty_tag. apply fails_map. apply fails_seqr_l. apply fails_tag. exact H.
  - apply fails_map. apply fails_verify. apply fails_seq_l. apply fails_nt. rewrite body_stag. apply fails_map.
    apply fails_seqr_l. apply fails_tag. exact H.
Qed.

Lemma fails_element_no_name (s : str) : stops (eval (is_name_start_char_except [58])) s -> F (NT nt_element) (60 :: s).
Proof.
  intros H. apply fails_nt. rewrite body_element. apply fails_alt.
  - apply fails_nt. rewrite body_empty_tag. apply fails_map. eapply fails_seqr_r; [tag|].
    apply fails_seql_l. apply fails_seq_l. apply fails_qname. exact H.
  - apply fails_map. apply fails_verify. apply fails_seq_l. apply fails_nt. rewrite body_stag. apply fails_map.
    eapply fails_seqr_r; [tag|]. apply fails_seql_l. apply fails_seq_l. apply fails_qname. exact H.
Qed.

Lemma fails_reference_lt (s : str) : F (NT nt_reference) (60 :: s).
Proof.
  apply fails_nt. rewrite body_reference. apply fails_alt.
  - apply fails_nt. rewrite body_entity_ref. apply fails_map. apply fails_seqr_l. apply fails_tag. reflexivity.
  - apply fails_nt. rewrite body_char_ref. apply fails_alt; apply fails_map; apply fails_seqr_l; apply fails_tag; reflexivity.
Qed.

Lemma fails_cdsect (s : str) : prefix [60;33;91;67;68;65;84;65;91] s = None -> F (NT nt_cdsect) s.
Proof. intros H. apply fails_nt. rewrite body_cdsect. apply fails_map. apply fails_seqr_l. apply fails_tag. exact H. Qed.
Lemma fails_pi (s : str) : prefix [60;63] s = None -> F (NT nt_pi) s.
Proof. intros H. apply fails_nt. rewrite body_pi. apply fails_map. apply fails_seqr_l. apply fails_tag. exact H. Qed.
Lemma fails_comment (s : str) : prefix [60;33;45;45] s = None -> F (NT nt_comment) s.
Proof. intros H. apply fails_nt. rewrite body_comment. apply fails_map. apply fails_seqr_l. apply fails_tag. exact H. Qed.

(** at `</` no further child starts *)
Lemma child_alt_fails_etag (r : str) : F child_alt (60 :: 47 :: r).
Proof.
  unfold child_alt. repeat apply fails_alt; apply fails_map.
  - apply fails_element_no_name. reflexivity.
  - apply fails_reference_lt.
  - apply fails_cdsect. reflexivity.
  - apply fails_pi. reflexivity.
  - apply fails_comment. reflexivity.
Qed.

(** the leaves of the element tree *)
Definition leaf_wf (i : item) : Prop :=
  match i with
  | ItCData s => cdata_ok s
  | ItCharRef t num r => reference_ok (RefChar num r) /\ exists c, char_from num r = IOk c /\ t = [c]
  | ItComment s => comment_ok s
  | ItPI p => pi_ok p
  | ItUnexpanded e => name_ok (en_name e) /\ resolve_ref ents ext false (en_name e) = IOk e
  | _ => False
  end.

Section CW.
Variable Q : item -> Prop.
Fixpoint children_wf (after_text : bool) (l : list item) : Prop :=
  match l with
  | [] => True
  | ItText t :: l' => after_text = false /\ t <> [] /\ text_ok t /\ children_wf true l'
  | c :: l' => Q c /\ children_wf false l'
  end.
End CW.

Fixpoint item_wf (i : item) : Prop :=
  match i with
  | ItElement local prefix attrs children =>
    qname_ok (mk_qname prefix local) /\ Forall attr_wf attrs /\ attrs_nodup [] (map un_attr attrs)
    /\ children_wf item_wf false children
  | ItText _ | ItDocType _ => False
  | _ => leaf_wf i
  end.

Definition is_text (i : item) : bool := match i with ItText _ => true | _ => false end.

(** what the induction provides for a child that is not text *)
Definition child_rt (c : item) : Prop :=
  forall r, exists x : contents,
    yields child_alt (d_item false c ++ r) (VContents x) r
    /\ build_child (build_element ents ext) ents ext x = IOk c.

Definition element_rt (i : item) : Prop :=
  forall r, exists e : element,
    yields (NT nt_element) (d_item false i ++ r) (VElement e) r /\ build_element ents ext e = IOk i.

Lemma d_pi_eq p : d_pi p = d_ppi p.
Proof. unfold d_pi, d_ppi, s_lt_q, s_q_gt. destruct (pi_value p); reflexivity. Qed.

Lemma child_rt_leaf (c : item) : leaf_wf c -> child_rt c.
Proof.
  intros Hc r. destruct c as [? ? ? ?|s|s|t num rd|s|p|e|d]; cbn [leaf_wf] in Hc; try contradiction; cbn [d_item].
  - (* CDATA *) exists (CsCData s). split; [|reflexivity]. unfold child_alt.
    unfold s_cdata_open, s_cdata_close. rewrite <- !app_assoc.
    apply yields_alt_r; [apply fails_map; apply fails_element_no_name; reflexivity|].
    apply yields_alt_r; [apply fails_map; apply fails_reference_lt|].
    apply yields_alt_l. apply (yields_map' (VCData s)); [reflexivity|]. apply yields_cdsect. exact Hc.
  - (* character reference *) destruct Hc as [Hr [c [Hc ->]]]. exists (CsReference (RefChar num rd)). split.
    + unfold child_alt. pose proof (yields_reference (RefChar num rd) r Hr) as Hy.
      assert (d_charref num rd = d_reference (RefChar num rd)) as -> by (destruct rd; reflexivity).
      apply yields_alt_r.
      * apply fails_map. apply fails_element_no_lt. destruct rd; reflexivity.
      * apply yields_alt_l. apply (yields_map' (VReference (RefChar num rd))); [reflexivity|]. exact Hy.
    + cbn [build_child]. rewrite Hc. reflexivity.
  - (* comment *) exists (CsComment s). split; [|reflexivity]. unfold child_alt.
    unfold s_comment_open, s_comment_close. rewrite <- !app_assoc.
    apply yields_alt_r; [apply fails_map; apply fails_element_no_name; reflexivity|].
    apply yields_alt_r; [apply fails_map; apply fails_reference_lt|].
    apply yields_alt_r; [apply fails_map; apply fails_cdsect; reflexivity|].
    apply yields_alt_r; [apply fails_map; apply fails_pi; reflexivity|].
    apply (yields_map' (VComment s)); [reflexivity|]. apply yields_comment. exact Hc.
  - (* PI *) exists (CsPI p). split; [|reflexivity]. unfold child_alt. rewrite d_pi_eq.
    pose proof (yields_pi p r Hc) as Hy. unfold d_ppi in *. rewrite <- !app_assoc in *.
    apply yields_alt_r; [apply fails_map; apply fails_element_no_name; reflexivity|].
    apply yields_alt_r; [apply fails_map; apply fails_reference_lt|].
    apply yields_alt_r; [apply fails_map; apply fails_cdsect; reflexivity|].
    apply yields_alt_l. apply (yields_map' (VPI p)); [reflexivity|]. exact Hy.
  - (* entity reference *) destruct Hc as [Hn Hr]. exists (CsReference (RefEntity (en_name e))). split.
    + unfold child_alt. pose proof (yields_reference (RefEntity (en_name e)) r Hn) as Hy.
      change (d_entref (en_name e)) with (d_reference (RefEntity (en_name e))).
      apply yields_alt_r; [apply fails_map; apply fails_element_no_lt; reflexivity|].
      apply yields_alt_l. apply (yields_map' (VReference (RefEntity (en_name e)))); [reflexivity|]. exact Hy.
    + cbn [build_child]. rewrite Hr. reflexivity.
Qed.

Lemma child_rt_element (c : item) : is_element c = true -> element_rt c -> child_rt c.
Proof.
  intros _ H r. destruct (H r) as [e [Hy Hb]]. exists (CsElement e). split; [|exact Hb].
  unfold child_alt. apply yields_alt_l. apply (yields_map' (VElement e)); [reflexivity|]. exact Hy.
Qed.

(** every non-text child prints something that starts with `<` or `&` *)
Lemma d_item_head (c : item) : item_wf c -> exists t, d_item false c = 60 :: t \/ d_item false c = 38 :: t.
Proof.
  destruct c as [local prefix attrs children|s|s|t num rd|s|p|e|d]; cbn [item_wf leaf_wf d_item]; intros H; try contradiction.
  - eexists. left. reflexivity.
  - eexists. left. reflexivity.
  - destruct rd; eexists; right; reflexivity.
  - eexists. left. reflexivity.
  - eexists. left. unfold d_pi, s_lt_q. reflexivity.
  - eexists. right. reflexivity.
Qed.

Lemma d_item_length (c : item) : item_wf c -> (0 < length (d_item false c))%nat.
Proof. intros H. destruct (d_item_head c H) as [t [-> | ->]]; cbn [length]; lia. Qed.

Definition d_children (l : list item) : str := flat_map (d_item false) l.

Lemma children_wf_true (Q : item -> Prop) l : children_wf Q true l ->
  children_wf Q false l /\ match l with ItText _ :: _ => False | _ => True end.
Proof.
  destruct l as [|c l]; [cbn; auto|]. destruct c; cbn [children_wf]; try tauto.
  intros [H _]. discriminate.
Qed.

(** text stops where the next child or the end tag starts *)
Lemma stops_text_next (l : list item) (r : str) : children_wf item_wf true l ->
  stops (eval (is_char_except [60;38])) (d_children l ++ 60 :: 47 :: r).
Proof.
  intros H. destruct (children_wf_true _ _ H) as [H1 H2]. destruct l as [|c l]; [reflexivity|].
  assert (item_wf c) as Hc.
  { destruct c; cbn [children_wf] in H1; try tauto. }
  unfold d_children. cbn [flat_map]. destruct (d_item_head c Hc) as [t [-> | ->]]; reflexivity.
Qed.

Lemma text_ok_nil : text_ok [].
Proof. split; reflexivity. Qed.

Definition cell_val (c : contents * str) : val := VPair (VContents (fst c)) (VSome (VStr (snd c))).
Definition cell_mk (c : contents * str) : cell := (fst c, Some (snd c)).

Lemma cells_many (r : str) : forall n (l : list item), (length l <= n)%nat ->
  children_wf item_wf true l -> Forall (fun c => is_text c = false -> child_rt c) l ->
  exists cs : list (contents * str),
    many_yields cell_expr (d_children l ++ 60 :: 47 :: r) (map cell_val cs) (60 :: 47 :: r)
    /\ build_cells (build_element ents ext) ents ext (map cell_mk cs) = IOk l.
Proof.
  induction n as [|n IH]; intros l Hlen Hwf Hrt.
  - destruct l; [|cbn in Hlen; lia]. exists []. split; [|reflexivity]. apply my_stop.
    apply fails_seq_l. apply child_alt_fails_etag.
  - destruct l as [|c l1].
    + exists []. split; [|reflexivity]. apply my_stop. apply fails_seq_l. apply child_alt_fails_etag.
    + destruct (children_wf_true _ _ Hwf) as [Hwf' Hnt].
      assert (is_text c = false) as Hc by (destruct c; try reflexivity; contradiction).
      inversion Hrt as [|c' l' Hrc Hrl]; subst.
      assert (item_wf c /\ children_wf item_wf false l1) as [Hic Hl1].
      { destruct c; cbn [children_wf] in Hwf'; try tauto; discriminate. }
      (* the text that follows [c], possibly empty *)
      assert (exists (t : str) l2, l1 = text_item (Some t) ++ l2 /\ text_ok t /\ children_wf item_wf true l2
                                   /\ (length l2 <= n)%nat /\ Forall (fun c => is_text c = false -> child_rt c) l2)
        as [t [l2 [E [Ht [Hl2 [Hn2 Hr2]]]]]].
      { destruct l1 as [|c1 l1'].
        - exists [], []. split; [reflexivity|]. split; [apply text_ok_nil|]. split; [exact I|]. split; [cbn; lia|constructor].
        - destruct c1 as [? ? ? ?|t|?|? ? ?|?|?|?|?];
            try (exists []; eexists; split; [reflexivity|]; split; [apply text_ok_nil|]; split; [exact Hl1|];
                 split; [cbn [length] in *; lia|exact Hrl]).
          cbn [children_wf] in Hl1. destruct Hl1 as [_ [Hne [Htok Hl2]]].
          exists t, l1'. destruct t as [|x t]; [contradiction|]. cbn [text_item app].
          split; [reflexivity|]. split; [exact Htok|]. split; [exact Hl2|].
          split; [cbn [length] in *; lia|inversion Hrl; assumption]. }
      destruct (IH l2 Hn2 Hl2 Hr2) as [cs [Hm Hb]].
      destruct (Hrc Hc (t ++ d_children l2 ++ 60 :: 47 :: r)) as [x [Hy Hbx]].
      exists ((x, t) :: cs). split.
      * cbn [map]. subst l1. unfold d_children. cbn [flat_map]. rewrite flat_map_app.
        assert (flat_map (d_item false) (text_item (Some t)) = t) as ->.
        { destruct t; [reflexivity|]. cbn [text_item flat_map d_item]. apply app_nil_r. }
        rewrite <- !app_assoc. fold (d_children l2).
        eapply my_step; [| |exact Hm].
        -- unfold cell_expr, cell_val. cbn [fst snd]. eapply yields_seq; [exact Hy|].
           apply yields_opt_some. apply yields_str. apply parses_char_data; [exact Ht|].
           apply stops_text_next. exact Hl2.
        -- pose proof (d_item_length c Hic). rewrite (app_length (d_item false c)), (app_length t).
           unfold str, char in *. lia.
      * cbn [map build_cells cell_mk fst snd]. rewrite Hbx. cbn [ibind]. rewrite Hb. cbn [ibind]. subst l1. reflexivity.
Qed.

Theorem content_rt (l : list item) (r : str) : children_wf item_wf false l ->
  Forall (fun c => is_text c = false -> child_rt c) l ->
  exists (h : str) (cs : list (contents * str)) l1,
    yields (NT nt_content) (d_children l ++ 60 :: 47 :: r) (VContent (Some h, map cell_mk cs)) (60 :: 47 :: r)
    /\ build_cells (build_element ents ext) ents ext (map cell_mk cs) = IOk l1
    /\ text_item (Some h) ++ l1 = l.
Proof.
  intros Hwf Hrt.
  assert (exists (h : str) l1, l = text_item (Some h) ++ l1 /\ text_ok h /\ children_wf item_wf true l1
                               /\ Forall (fun c => is_text c = false -> child_rt c) l1) as [h [l1 [E [Hh [Hl1 Hr1]]]]].
  { destruct l as [|c l'].
    - exists [], []. split; [reflexivity|]. split; [apply text_ok_nil|]. split; [exact I|constructor].
    - destruct c as [? ? ? ?|t|?|? ? ?|?|?|?|?];
        try (exists []; eexists; split; [reflexivity|]; split; [apply text_ok_nil|]; split; [exact Hwf|exact Hrt]).
      cbn [children_wf] in Hwf. destruct Hwf as [_ [Hne [Htok Hl]]].
      exists t, l'. destruct t as [|x t]; [contradiction|]. cbn [text_item app].
      split; [reflexivity|]. split; [exact Htok|]. split; [exact Hl|inversion Hrt; assumption]. }
  destruct (cells_many r (length l1) l1 (le_n _) Hl1 Hr1) as [cs [Hm Hb]].
  exists h, cs, l1. repeat split; [|exact Hb|symmetry; exact E].
  apply yields_nt. rewrite body_content.
  apply (yields_map' (VPair (VSome (VStr h)) (VList (map cell_val cs)))); [apply al_content|].
  subst l. unfold d_children. rewrite flat_map_app.
  assert (flat_map (d_item false) (text_item (Some h)) = h) as ->.
  { destruct h; [reflexivity|]. cbn [text_item flat_map d_item]. apply app_nil_r. }
  rewrite <- app_assoc. fold (d_children l1).
  eapply yields_seq.
  - apply yields_opt_some. apply yields_str. apply parses_char_data; [exact Hh|]. apply stops_text_next. exact Hl1.
  - apply yields_many0. exact Hm.
Qed.

(** ** elements: induction on the tree *)
Section ItemInd.
Variable Pi : item -> Prop.
Hypothesis H_elem : forall local prefix attrs children, Forall Pi children -> Pi (ItElement local prefix attrs children).
Hypothesis H_other : forall i, is_element i = false -> Pi i.
Lemma item_ind2 : forall i, Pi i.
Proof.
  fix IH 1. intros [local prefix attrs children|s|s|t num rd|s|p|e|d]; try (apply H_other; reflexivity).
  apply H_elem. induction children as [|c l IHl]; constructor; [apply IH|exact IHl].
Qed.
End ItemInd.

Lemma children_rt (l : list item) : forall b, children_wf item_wf b l ->
  Forall (fun c => is_element c = true -> item_wf c -> element_rt c) l ->
  Forall (fun c => is_text c = false -> child_rt c) l.
Proof.
  induction l as [|c l IH]; intros b Hwf Hall; constructor.
  - inversion Hall as [|c' l' Hc _]; subst. intros Hnt.
    assert (item_wf c) as Hic by (destruct c; cbn [children_wf] in Hwf; try tauto; discriminate).
    destruct (is_element c) eqn:E.
    + apply child_rt_element; [exact E|]. apply Hc; [reflexivity|exact Hic].
    + apply child_rt_leaf. destruct c; try discriminate; cbn [item_wf] in Hic; try contradiction; exact Hic.
  - inversion Hall; subst. destruct c; cbn [children_wf] in Hwf; try (eapply IH; [apply Hwf|assumption]).
Qed.

Lemma d_item_element local prefix attrs children :
  d_item false (ItElement local prefix attrs children) =
  60 :: d_qname (mk_qname prefix local) ++ d_attrs attrs
     ++ match children with
        | [] => [32;47;62]
        | _ => 62 :: d_children children ++ 60 :: 47 :: d_qname (mk_qname prefix local) ++ [62]
        end.
Proof.
  cbn [d_item]. rewrite d_name_qname. unfold d_attrs, d_children, s_empty_close, s_etag_open.
  destruct children; cbn [app]; rewrite <- ?app_assoc; reflexivity.
Qed.

Theorem element_round_trip : forall i, is_element i = true -> item_wf i -> element_rt i.
Proof.
  apply (item_ind2 (fun i => is_element i = true -> item_wf i -> element_rt i)); [|intros i E H; congruence].
  intros local prefix attrs children IHc _ [Hq [Ha [Hnd Hcw]]] r.
  set (q := mk_qname prefix local) in *.
  rewrite d_item_element. fold q. destruct children as [|c0 l0].
  - (* <q attrs /> *)
    exists (Element q (map un_attr attrs) None). split.
    + apply yields_nt. rewrite body_element. apply yields_alt_l. apply yields_nt. rewrite body_empty_tag.
      destruct (tag_open_rt q attrs (32 :: 47 :: 62 :: r) Hq Ha) as [ta [Hp He]]; [left; eexists; reflexivity|].
      apply (yields_map' (VPair (VQName q) (VList (map VAttribute (map un_attr attrs))))); [apply al_element|].
      repeat (progress (rewrite <- ?app_assoc; cbn [app])).
      eapply yields_seqr; [tag|].
      eapply yields_seql.
      * exists (TPair (tree_qname q) ta). split; [exact Hp|]. cbn [eval_tree]. rewrite eval_tree_qname, He. reflexivity.
      * eapply parses_seq; [apply (parses_chars0 G_xml ws [32] (47 :: 62 :: r)); reflexivity|tag].
    + cbn [build_element]. unfold build_attrs. rewrite (build_attrs_un attrs Ha [] Hnd). cbn [ibind].
      unfold q. rewrite qname_parts_mk. reflexivity.
  - (* <q attrs>children</q> *)
    set (l := c0 :: l0) in *.
    assert (Forall (fun c => is_text c = false -> child_rt c) l) as Hrt by (eapply children_rt; eassumption).
    destruct (content_rt l (d_qname q ++ 62 :: r) Hcw Hrt) as [h [cs [l1 [[tc [Hpc Hec]] [Hb Hl]]]]].
    exists (Element q (map un_attr attrs) (Some (Some h, map cell_mk cs))). split.
    + apply yields_nt. rewrite body_element.
      repeat (progress (rewrite <- ?app_assoc; cbn [app])).
      set (rest := d_children l ++ 60 :: 47 :: d_qname q ++ 62 :: r).
      destruct (tag_open_rt q attrs (62 :: rest) Hq Ha) as [ta [Hp He]]; [right; eexists; reflexivity|].
      apply yields_alt_r.
      * apply fails_nt. rewrite body_empty_tag. apply fails_map. eapply fails_seqr_r; [tag|].
        eapply fails_seql_r; [exact Hp|]. eapply fails_seq_r; [apply parses_chars0_nil; reflexivity|].
        apply fails_tag. reflexivity.
      * set (ts := TMap L_model_Element_from (TPair (tree_qname q) ta)).
        exists (TMap L_closure_f7047233 (TPair ts (TPair tc (tree_qname q)))). split.
        -- apply parses_map. apply parses_verify; [|cbn; apply tree_eqb_qname].
           eapply parses_seq.
           ++ apply parses_nt. rewrite body_stag. apply parses_map. eapply parses_seqr; [tag|].
              eapply parses_seql; [exact Hp|].
              eapply parses_seq; [apply parses_chars0_nil; reflexivity|tag].
           ++ eapply parses_seq; [exact Hpc|].
              apply parses_nt. rewrite body_etag. eapply parses_seqr; [tag|].
              eapply parses_seql; [apply parses_qname; [exact Hq|reflexivity]|].
              eapply parses_seq; [apply parses_chars0_nil; reflexivity|tag].
        -- subst ts. cbn [eval_tree]. rewrite Hec, He, !eval_tree_qname. rewrite al_element. apply al_set_content.
    + cbn [build_element]. unfold build_attrs. rewrite (build_attrs_un attrs Ha [] Hnd). cbn [ibind].
      rewrite Hb. cbn [ibind]. unfold q. rewrite qname_parts_mk. cbn [fst snd]. rewrite Hl. reflexivity.
Qed.

End Elem.
