(** * The loop of [normalize] on a store with the tree invariant ([ns] of Proofs/DomNormalizeStore.v)

    [cdesc s r x]: [x] is [r] or is reached from [r] through child lists of elements (the subtree underneath [r];
    attributes are not part of it).  [Hgt s r f]: the element nesting underneath [r] is less than [f] deep.

    [ns_spec]: under the tree invariant, with enough fuel, [ns f s r]
    - is a sequence of merges of adjacent Text children of elements of the subtree ([MS (cdesc s r)]), hence
      everything Proofs/DomNormalizeSteps.v says about such sequences;
    - leaves every element of the subtree in normal form ([quiet]);
    - does not depend on the fuel.
    [hgt_next]: [next s] is enough fuel.  [ns_quiet_noop]: on a subtree in normal form [ns] changes nothing. *)
From Coq Require Import List NArith Bool Lia.
From XmlRs Require Import Base.CPred Model.Store Model.DomOps Model.DomNormalize
  Proofs.DomBase Proofs.DomTree Proofs.DomOpsInv Proofs.DomAnc Proofs.DomNormalizeFrame Proofs.DomNormalizeStore
  Proofs.DomNormalizeSteps.
From XmlRs Require Model.CharData.
Import ListNotations.
Open Scope N_scope.

(** ** [valid_str KTx] is prefix closed *)
Lemma prefix_of_app p : forall a b, CharData.prefix_of p a = true -> CharData.prefix_of p (a ++ b) = true.
Proof.
  induction p as [|x p IH]; intros a b H; [reflexivity|]. destruct a as [|y a]; [discriminate|].
  cbn [CharData.prefix_of app] in *. apply andb_true_iff in H. destruct H as [H1 H2]. rewrite H1. cbn [andb]. apply IH. exact H2.
Qed.

Lemma has_sub_app p : forall a b, CharData.has_sub p a = true -> CharData.has_sub p (a ++ b) = true.
Proof.
  induction a as [|y a IH]; intros b H.
  - cbn [CharData.has_sub] in H. rewrite orb_false_r in H. destruct p as [|x p]; [|discriminate].
    destruct b; reflexivity.
  - cbn [CharData.has_sub app] in *. apply orb_true_iff in H. apply orb_true_iff. destruct H as [H|H].
    + left. apply (prefix_of_app p (y :: a) b H).
    + right. apply IH. exact H.
Qed.

Lemma valid_prefix a b : valid_str KTx (a ++ b) = true -> valid_str KTx a = true.
Proof.
  cbn [valid_str]. unfold CharData.check_text, CharData.has_cdend. intros H.
  apply andb_true_iff in H. destruct H as [H1 H2]. rewrite forallb_app in H1. apply andb_true_iff in H1. destruct H1 as [H1 _].
  apply andb_true_iff. split; [exact H1|]. apply negb_true_iff. apply negb_true_iff in H2.
  destruct (CharData.has_sub [93; 93; 62] a) eqn:E; [|reflexivity].
  rewrite (has_sub_app _ a b E) in H2. discriminate.
Qed.

Lemma refused_grows a b c : valid_str KTx (a ++ b) = false -> valid_str KTx (a ++ b ++ c) = false.
Proof.
  intros H. destruct (valid_str KTx (a ++ b ++ c)) eqn:E; [|reflexivity].
  rewrite app_assoc in E. rewrite (valid_prefix _ _ E) in H. discriminate.
Qed.

(** ** walking a child list: the [previous] of the loop *)
Definition tstate (s : store) (c : id) : option id := if has_kind s KTx c then Some c else None.

Fixpoint walk (s : store) (prev : option id) (l : list id) : option id :=
  match l with
  | [] => prev
  | c :: t => walk s (tstate s c) t
  end.

Lemma walk_app s : forall a b prev, walk s prev (a ++ b) = walk s (walk s prev a) b.
Proof. induction a as [|x a IH]; intros b prev; [reflexivity|]. cbn [app walk]. apply IH. Qed.

Lemma walk_ext s s' : (forall x, has_kind s' KTx x = has_kind s KTx x) -> forall l prev, walk s' prev l = walk s prev l.
Proof. intros H. induction l as [|x l IH]; intros prev; [reflexivity|]. cbn [walk]. unfold tstate. rewrite H. apply IH. Qed.

Lemma walk_some s p : forall l prev, walk s prev l = Some p ->
  (l = [] /\ prev = Some p) \/ exists d1, l = d1 ++ [p] /\ has_kind s KTx p = true.
Proof.
  induction l as [|c t IH]; intros prev H; [left; split; [reflexivity | exact H]|].
  right. cbn [walk] in H. destruct (IH _ H) as [[-> E]|[d1 [-> K]]].
  - unfold tstate in E. destruct (has_kind s KTx c) eqn:K; [|discriminate]. inversion E; subst. exists []. split; [reflexivity | exact K].
  - exists (c :: d1). split; [reflexivity | exact K].
Qed.

Lemma quiet_app s : forall a b prev, quiet s prev (a ++ b) = quiet s prev a && quiet s (walk s prev a) b.
Proof.
  induction a as [|x a IH]; intros b prev; [reflexivity|]. cbn [app quiet walk]. unfold tstate.
  destruct (has_kind s KTx x); [rewrite IH, andb_assoc; reflexivity | apply IH].
Qed.

Lemma quiet_last s prev c :
  quiet s prev [c] = if has_kind s KTx c
                     then match prev with Some p => negb (valid_str KTx (data_of s p ++ data_of s c)) | None => true end
                     else true.
Proof. cbn [quiet]. destruct (has_kind s KTx c); [apply andb_true_r | reflexivity]. Qed.

(** the last node of the part already walked grows: the part stays in normal form *)
Lemma quiet_grow s s1 d1 p dc :
  (forall x, has_kind s1 KTx x = has_kind s KTx x) ->
  (forall x, x <> p -> data_of s1 x = data_of s x) ->
  data_of s1 p = data_of s p ++ dc -> ~ In p d1 ->
  quiet s None (d1 ++ [p]) = true -> quiet s1 None (d1 ++ [p]) = true.
Proof.
  intros Hk Hd Hp Hn Q. rewrite quiet_app in *. apply andb_true_iff in Q. destruct Q as [Q1 Q2].
  apply andb_true_iff. split.
  - rewrite <- Q1. apply quiet_ext; [|intros q E; discriminate].
    intros x Hx. split; [apply Hk | apply Hd; intros ->; exact (Hn Hx)].
  - rewrite (walk_ext s s1 Hk). rewrite quiet_last in *. rewrite Hk. destruct (has_kind s KTx p); [|reflexivity].
    destruct (walk s None d1) as [q|] eqn:W; [|reflexivity].
    assert (Nq : q <> p).
    { destruct (walk_some s q d1 None W) as [[_ E]|[d2 [-> _]]]; [discriminate|].
      intros ->. apply Hn. apply in_or_app. right. left. reflexivity. }
    rewrite (Hd q Nq), Hp. apply negb_true_iff. apply negb_true_iff in Q2. apply refused_grows. exact Q2.
Qed.

(** ** the subtree underneath a node *)
Inductive cdesc (s : store) : id -> id -> Prop :=
| cd_self r : cdesc s r r
| cd_step r c x : kind_of s r = Some KEl -> In c (children_of s r) -> cdesc s c x -> cdesc s r x.

Lemma cdesc_last s r e x : cdesc s r e -> kind_of s e = Some KEl -> In x (children_of s e) -> cdesc s r x.
Proof.
  intros H. induction H as [r | r c e Kr Hc _ IH]; intros Ke Hx.
  - eapply cd_step; [exact Ke | exact Hx | apply cd_self].
  - eapply cd_step; [exact Kr | exact Hc | apply IH; assumption].
Qed.

Lemma cdesc_leaf s c e : kind_of s c <> Some KEl -> cdesc s c e -> e = c.
Proof. intros K H. destruct H as [r | r c x Kr _ _]; [reflexivity | contradiction]. Qed.

Lemma children_par s r c : TreeInv s -> In c (children_of s r) -> par s c r.
Proof.
  intros T H. unfold children_of in H. destruct (get s r) as [rit|] eqn:G; [|contradiction].
  apply (ti_lists_par s T). exists rit. split; [exact G | left; exact H].
Qed.

Lemma cdesc_anc s r x : TreeInv s -> cdesc s r x -> x = r \/ anc s x r.
Proof.
  intros T H. induction H as [r | r c x Kr Hc _ IH]; [left; reflexivity|]. right.
  pose proof (children_par s r c T Hc) as P.
  destruct IH as [->|A]; [apply anc1; exact P | eapply anc_trans; [exact A | apply anc1; exact P]].
Qed.

Lemma anc_step s x a q : anc s x a -> par s x q -> a = q \/ anc s q a.
Proof.
  intros A P. destruct A as [x p Hp | x p a Hp Ha].
  - left. eapply par_fun; eassumption.
  - right. rewrite (par_fun s x q p P Hp). exact Ha.
Qed.

Lemma NF_children_incl s s' e : NF s s' -> incl (children_of s' e) (children_of s e).
Proof.
  intros [_ [_ [_ H]]]. specialize (H e). unfold children_of. destruct (get s e) as [a|].
  - destruct H as [b [E F]]. rewrite E. exact (if_incl _ _ _ F).
  - rewrite H. apply incl_refl.
Qed.

Lemma NF_children_nontext s s' e x : NF s s' -> In x (children_of s e) -> has_kind s KTx x = false -> In x (children_of s' e).
Proof.
  intros [_ [_ [_ H]]] Hx K. specialize (H e). unfold children_of in *. destruct (get s e) as [a|]; [|contradiction].
  destruct H as [b [E F]]. rewrite E.
  assert (I : In x (filter (nontext s) (ichildren a))) by (apply filter_In; split; [exact Hx | unfold nontext; rewrite K; reflexivity]).
  rewrite <- (if_nontext _ _ _ F) in I. apply filter_In in I. exact (proj1 I).
Qed.

Lemma cdesc_mono s s' r x : NF s s' -> cdesc s' r x -> cdesc s r x.
Proof.
  intros F H. induction H as [r | r c x Kr Hc _ IH]; [apply cd_self|].
  eapply cd_step; [rewrite <- (NF_kind_of s s' r F); exact Kr | apply (NF_children_incl s s' r F); exact Hc | exact IH].
Qed.

Lemma kind_nontext s x k : kind_of s x = Some k -> k <> KTx -> has_kind s KTx x = false.
Proof. intros K Hk. rewrite has_kind_kind_of, K. destruct k; try reflexivity. contradiction. Qed.

Lemma cdesc_NF_nontext s s' r x : NF s s' -> cdesc s r x -> has_kind s KTx x = false -> cdesc s' r x.
Proof.
  intros F H Kx. induction H as [r | r c x Kr Hc Hd IH]; [apply cd_self|].
  eapply cd_step; [rewrite (NF_kind_of s s' r F); exact Kr | | apply IH; exact Kx].
  apply (NF_children_nontext s s' r c F Hc).
  destruct Hd as [c | c c' x Kc _ _]; [exact Kx | eapply kind_nontext; [exact Kc | discriminate]].
Qed.

(** an element child [c] of [r]: the subtree of [c] does not contain [r], nor another child of [r], nor has it one of
    them as a child *)
Lemma subtree_apart s r c y : TreeInv s -> par s c r -> (y = r \/ (par s y r /\ y <> c)) ->
  ~ cdesc s c y /\ forall e, cdesc s c e -> ~ In y (children_of s e).
Proof.
  intros T Pc Hy.
  assert (Cyc : ~ anc s r c) by (intros A; apply (ti_acyclic s T c); eapply ancS; eassumption).
  assert (Ncr : c <> r).
  { intros E. apply (ti_acyclic s T c). apply anc1. rewrite <- E in Pc. exact Pc. }
  assert (N1 : ~ cdesc s c y).
  { intros H. destruct (cdesc_anc s c y T H) as [E|A].
    - destruct Hy as [->|[_ Ne]]; [apply Ncr; symmetry; exact E | contradiction].
    - destruct Hy as [->|[Py _]]; [exact (Cyc A)|].
      destruct (anc_step s y c r A Py) as [E|A']; [contradiction | exact (Cyc A')]. }
  split; [exact N1|]. intros e He Hin.
  pose proof (children_par s e y T Hin) as Pe.
  destruct Hy as [->|[Py _]].
  - destruct (cdesc_anc s c e T He) as [->|A].
    + apply (ti_acyclic s T c). eapply ancS; [exact Pc | apply anc1; exact Pe].
    + apply Cyc. eapply ancS; eassumption.
  - rewrite (par_fun s y e r Pe Py) in He. apply N1 in He || idtac.
    destruct (cdesc_anc s c r T He) as [E|A]; [apply Ncr; symmetry; exact E | exact (Cyc A)].
Qed.

(** ** enough fuel *)
Inductive Hgt (s : store) : id -> nat -> Prop :=
| hgt r f : (forall c, In c (children_of s r) -> kind_of s c = Some KEl -> Hgt s c f) -> Hgt s r (S f).

Lemma Hgt_NF s s' r f : NF s s' -> Hgt s r f -> Hgt s' r f.
Proof.
  intros F H. induction H as [r f _ IH]. constructor. intros c Hc Kc.
  apply IH; [apply (NF_children_incl s s' r F); exact Hc | rewrite <- (NF_kind_of s s' c F); exact Kc].
Qed.

Lemma ancn_strict s : TreeInv s -> forall n c a it, ancn s n c a -> get s c = Some it -> (S n <= N.to_nat (next s))%nat.
Proof.
  intros T n c a it H G. destruct (ancn_chain s T n c a H) as [l [Hlen [Hnd [Hanc Hlt]]]].
  rewrite <- Hlen. change (S (length l)) with (length (c :: l)). apply below_list.
  - constructor; [|exact Hnd]. intros Hin. apply (ti_acyclic s T c). apply Hanc. exact Hin.
  - intros x [<-|Hx]; [pose proof (ti_bound s T c it G); lia | specialize (Hlt x Hx); lia].
Qed.

Lemma hgt_depth s : TreeInv s -> forall f d r it,
  (d = O \/ exists a, ancn s d r a) -> get s r = Some it -> (N.to_nat (next s) <= d + f)%nat -> Hgt s r f.
Proof.
  intros T. induction f as [|f IH]; intros d r it Hd G Hb.
  - exfalso. destruct Hd as [->|[a Ha]].
    + pose proof (ti_bound s T r it G). lia.
    + pose proof (ancn_strict s T d r a it Ha G). lia.
  - constructor. intros c Hc Kc. destruct (kind_of_get _ _ _ Kc) as [cit [Gc _]].
    pose proof (children_par s r c T Hc) as P.
    apply (IH (S d) c cit); [right | exact Gc | lia].
    destruct Hd as [->|[a Ha]]; [exists r; constructor; exact P | exists a; econstructor; eassumption].
Qed.

Theorem hgt_next s r it : TreeInv s -> get s r = Some it -> Hgt s r (N.to_nat (next s)).
Proof. intros T G. apply (hgt_depth s T _ O r it); [left; reflexivity | exact G | lia]. Qed.

(** ** the loop *)
Section Loop.
  Variables (rec rec2 : store -> id -> store) (f : nat).
  Hypothesis Hrec : forall s c, TreeInv s -> kind_of s c = Some KEl -> Hgt s c f ->
    MS (cdesc s c) s (rec s c)
    /\ (forall e, cdesc s c e -> kind_of s e = Some KEl -> quiet (rec s c) None (children_of (rec s c) e) = true)
    /\ rec2 s c = rec s c.

  Lemma nl_spec : forall l s r prev done,
    TreeInv s -> kind_of s r = Some KEl -> children_of s r = done ++ l ->
    (forall c, In c l -> kind_of s c = Some KEl -> Hgt s c f) ->
    prev = walk s None done -> quiet s None done = true ->
    MS (cdesc s r) s (nl rec s r prev l)
    /\ quiet (nl rec s r prev l) None (children_of (nl rec s r prev l) r) = true
    /\ (forall c, In c l -> forall e, cdesc s c e -> kind_of s e = Some KEl ->
          quiet (nl rec s r prev l) None (children_of (nl rec s r prev l) e) = true)
    /\ nl rec2 s r prev l = nl rec s r prev l.
  Proof.
    induction l as [|c t IH]; intros s r prev done T Kr Hl Hh Hp Q.
    - cbn [nl]. rewrite app_nil_r in Hl. split; [apply MS_refl|]. split; [rewrite Hl; exact Q|].
      split; [intros c []| reflexivity].
    - assert (Hl' : children_of s r = (done ++ [c]) ++ t) by (rewrite <- app_assoc; exact Hl).
      assert (Hht : forall c', In c' t -> kind_of s c' = Some KEl -> Hgt s c' f) by (intros c' Hc'; apply Hh; right; exact Hc').
      (* a child that is neither a Text node nor an element, and a Text node that stays *)
      assert (Stay : forall prev', prev' = tstate s c -> kind_of s c <> Some KEl ->
                (has_kind s KTx c = true -> match prev with Some p => valid_str KTx (data_of s p ++ data_of s c) = false | None => True end) ->
                MS (cdesc s r) s (nl rec s r prev' t)
                /\ quiet (nl rec s r prev' t) None (children_of (nl rec s r prev' t) r) = true
                /\ (forall c', In c' (c :: t) -> forall e, cdesc s c' e -> kind_of s e = Some KEl ->
                      quiet (nl rec s r prev' t) None (children_of (nl rec s r prev' t) e) = true)
                /\ nl rec2 s r prev' t = nl rec s r prev' t).
      { intros prev' Ep Ke Hv.
        destruct (IH s r prev' (done ++ [c]) T Kr Hl' Hht) as [M [Q1 [Q2 E2]]].
        - rewrite walk_app. cbn [walk]. exact Ep.
        - rewrite quiet_app, Q. cbn [andb]. rewrite quiet_last, <- Hp.
          destruct (has_kind s KTx c); [|reflexivity]. specialize (Hv eq_refl).
          destruct prev as [p|]; [rewrite Hv; reflexivity | reflexivity].
        - split; [exact M|]. split; [exact Q1|]. split; [|exact E2].
          intros c' [<-|Hc'] e He Kel; [|exact (Q2 c' Hc' e He Kel)].
          exfalso. rewrite (cdesc_leaf s c e Ke He) in Kel. contradiction. }
      cbn [nl]. destruct (kind_of s c) as [kc|] eqn:Kc.
      2:{ apply Stay; [unfold tstate; rewrite has_kind_kind_of, Kc; reflexivity | discriminate|].
          rewrite has_kind_kind_of, Kc. discriminate. }
      destruct kc;
        try (apply Stay; [unfold tstate; rewrite has_kind_kind_of, Kc; reflexivity | discriminate
                         | rewrite has_kind_kind_of, Kc; discriminate]).
      + (* element child *)
        assert (Hc : In c (children_of s r)) by (rewrite Hl; apply in_or_app; right; left; reflexivity).
        pose proof (children_par s r c T Hc) as Pc.
        destruct (Hrec s c T Kc (Hh c (or_introl eq_refl) Kc)) as [M1 [Q1 E1]].
        set (s1 := rec s c) in *.
        pose proof (MS_inv _ _ _ M1 T) as T1.
        pose proof (MS_NF _ _ _ M1) as F1.
        assert (Hk : forall x, has_kind s1 KTx x = has_kind s KTx x) by (intros x; apply NF_has_kind; exact F1).
        assert (Gr : get s1 r = get s r).
        { destruct (subtree_apart s r c r T Pc (or_introl eq_refl)) as [A1 A2]. exact (MS_frame _ _ _ M1 T r A1 A2). }
        assert (Gy : forall y, In y (children_of s r) -> y <> c -> get s1 y = get s y).
        { intros y Hy Ne.
          destruct (subtree_apart s r c y T Pc (or_intror (conj (children_par s r y T Hy) Ne))) as [A1 A2].
          exact (MS_frame _ _ _ M1 T y A1 A2). }
        assert (Hl1 : children_of s1 r = (done ++ [c]) ++ t) by (unfold children_of; rewrite Gr; exact Hl').
        assert (Nd : NoDup (done ++ c :: t)).
        { rewrite <- Hl. unfold children_of. destruct (get s r) as [rit|] eqn:G; [|constructor]. eapply (ti_nodup_c s T); exact G. }
        assert (Kc1 : has_kind s1 KTx c = false) by (rewrite Hk; eapply kind_nontext; [exact Kc | discriminate]).
        destruct (IH s1 r None (done ++ [c]) T1) as [M [Q2 [Q3 E2]]].
        * rewrite (NF_kind_of s s1 r F1). exact Kr.
        * exact Hl1.
        * intros c' Hc' Kc'. apply (Hgt_NF s s1 c' f F1). apply Hht; [exact Hc'|].
          rewrite <- (NF_kind_of s s1 c' F1). exact Kc'.
        * rewrite walk_app. cbn [walk]. unfold tstate. rewrite Kc1. reflexivity.
        * rewrite quiet_app. apply andb_true_iff. split; [|rewrite quiet_last, Kc1; reflexivity].
          rewrite <- Q. apply quiet_ext; [|intros q E; discriminate].
          intros x Hx. split; [apply Hk|]. unfold data_of. rewrite Gy; [reflexivity | rewrite Hl; apply in_or_app; left; exact Hx|].
          intros ->. apply NoDup_remove_2 in Nd. apply Nd. apply in_or_app. left. exact Hx.
        * split; [|split; [exact Q2 | split]].
          -- eapply MS_trans.
             ++ eapply MS_weaken; [|exact M1]. intros e He. eapply cd_step; [exact Kr | exact Hc | exact He].
             ++ eapply MS_weaken; [|exact M]. intros e He. eapply cdesc_mono; [exact F1 | exact He].
          -- intros c' [<-|Hc'] e He Kel.
             ++ apply (MS_quiet _ _ _ e M T1). apply Q1; assumption.
             ++ apply (Q3 c' Hc' e).
                ** apply (cdesc_NF_nontext s s1 c' e F1 He). eapply kind_nontext; [exact Kel | discriminate].
                ** rewrite (NF_kind_of s s1 e F1). exact Kel.
          -- rewrite E1. exact E2.
      + (* Text child *)
        assert (Kt : has_kind s KTx c = true) by (apply kind_has; exact Kc).
        destruct prev as [p|].
        2:{ apply Stay; [unfold tstate; rewrite Kt; reflexivity | discriminate | intros _; exact I]. }
        destruct (valid_str KTx (data_of s p ++ data_of s c)) eqn:V.
        2:{ apply Stay; [unfold tstate; rewrite Kt; reflexivity | discriminate | intros _; reflexivity]. }
        (* merged into [p] *)
        destruct (walk_some s p done None (eq_sym Hp)) as [[_ E]|[d1 [-> Kp]]]; [discriminate|].
        assert (Kp' : kind_of s p = Some KTx).
        { rewrite has_kind_kind_of in Kp. destruct (kind_of s p) as [k|]; [|discriminate]. destruct k; try discriminate. reflexivity. }
        assert (Hl2 : children_of s r = d1 ++ p :: c :: t) by (rewrite Hl, <- app_assoc; reflexivity).
        set (s1 := merge s r p c).
        pose proof (MS_one (cdesc s r) s r p c d1 t (cd_self s r) Kr Hl2 Kp' Kc V) as M1. fold s1 in M1.
        pose proof (proj1 (om_gets s r p c d1 t T Kr Hl2 Kp' Kc)) as T1. fold s1 in T1.
        pose proof (NF_merge s r p c Kr Kp' Kc) as F1. fold s1 in F1.
        assert (Hk : forall x, has_kind s1 KTx x = has_kind s KTx x) by (intros x; apply has_kind_merge).
        destruct (IH s1 r (Some p) (d1 ++ [p]) T1) as [M [Q2 [Q3 E2]]].
        * unfold s1. rewrite kind_of_merge. exact Kr.
        * unfold s1. rewrite (om_children_e s r p c d1 t T Kr Hl2 Kp' Kc), <- app_assoc. reflexivity.
        * intros c' Hc' Kc'. apply (Hgt_NF s s1 c' f F1). apply Hht; [exact Hc'|].
          unfold s1 in Kc'. rewrite kind_of_merge in Kc'. exact Kc'.
        * rewrite (walk_ext s s1 Hk). exact Hp.
        * apply (quiet_grow s s1 d1 p (data_of s c) Hk).
          -- intros x Nx. exact (om_data_other s r p c d1 t T Kr Hl2 Kp' Kc x Nx).
          -- exact (om_data_p s r p c d1 t T Kr Hl2 Kp' Kc).
          -- intros Hin. apply (om_p_notin s r p c d1 t T Hl2). apply in_or_app. left. exact Hin.
          -- exact Q.
        * split; [|split; [exact Q2 | split]].
          -- eapply MS_trans; [exact M1|]. eapply MS_weaken; [|exact M]. intros e He. eapply cdesc_mono; [exact F1 | exact He].
          -- intros c' [<-|Hc'] e He Kel.
             ++ exfalso. assert (Ne : kind_of s c <> Some KEl) by (rewrite Kc; discriminate).
                rewrite (cdesc_leaf s c e Ne He) in Kel. contradiction.
             ++ apply (Q3 c' Hc' e).
                ** apply (cdesc_NF_nontext s s1 c' e F1 He). eapply kind_nontext; [exact Kel | discriminate].
                ** unfold s1. rewrite kind_of_merge. exact Kel.
          -- exact E2.
  Qed.
End Loop.

Theorem ns_spec : forall f s r, TreeInv s -> kind_of s r = Some KEl -> Hgt s r f ->
  MS (cdesc s r) s (ns f s r)
  /\ (forall e, cdesc s r e -> kind_of s e = Some KEl -> quiet (ns f s r) None (children_of (ns f s r) e) = true)
  /\ (forall f', (f <= f')%nat -> ns f' s r = ns f s r).
Proof.
  induction f as [|f IH]; intros s r T Kr H; [inversion H|].
  inversion H as [r0 f0 Hc E1 E2]; subst r0 f0.
  assert (L : forall rec2, (forall s c, TreeInv s -> kind_of s c = Some KEl -> Hgt s c f -> rec2 s c = ns f s c) ->
    MS (cdesc s r) s (nl (ns f) s r None (children_of s r))
    /\ quiet (nl (ns f) s r None (children_of s r)) None (children_of (nl (ns f) s r None (children_of s r)) r) = true
    /\ (forall c, In c (children_of s r) -> forall e, cdesc s c e -> kind_of s e = Some KEl ->
          quiet (nl (ns f) s r None (children_of s r)) None (children_of (nl (ns f) s r None (children_of s r)) e) = true)
    /\ nl rec2 s r None (children_of s r) = nl (ns f) s r None (children_of s r)).
  { intros rec2 H2. apply (nl_spec (ns f) rec2 f) with (done := []); try assumption; try reflexivity.
    intros s0 c T0 K0 H0. destruct (IH s0 c T0 K0 H0) as [A [B _]]. split; [exact A|]. split; [exact B|]. apply H2; assumption. }
  cbn [ns]. rewrite Kr.
  destruct (L (ns f) (fun _ _ _ _ _ => eq_refl)) as [M [Q1 [Q2 _]]].
  split; [exact M|]. split.
  - intros e He Ke. destruct He as [r | r c e _ Hin Hd]; [exact Q1 | exact (Q2 c Hin e Hd Ke)].
  - intros f' Hf. destruct f' as [|f']; [lia|]. cbn [ns]. rewrite Kr.
    apply (L (ns f')). intros s0 c T0 K0 H0. apply (IH s0 c T0 K0 H0). lia.
Qed.

(** ** a subtree in normal form is left alone (any fuel, no invariant needed) *)
Lemma nl_quiet_noop (rec : store -> id -> store) s r : forall l prev,
  (forall c, In c l -> kind_of s c = Some KEl -> rec s c = s) -> quiet s prev l = true -> nl rec s r prev l = s.
Proof.
  induction l as [|c t IH]; intros prev Hr Q; cbn [nl]; [reflexivity|].
  assert (Ht : forall c', In c' t -> kind_of s c' = Some KEl -> rec s c' = s) by (intros c' Hc'; apply Hr; right; exact Hc').
  cbn [quiet] in Q. rewrite has_kind_kind_of in Q.
  destruct (kind_of s c) as [kc|] eqn:Kc; [|apply IH; assumption].
  destruct kc; cbn [kind_eqb] in Q; try (apply IH; assumption).
  - rewrite (Hr c (or_introl eq_refl) Kc). apply IH; assumption.
  - apply andb_true_iff in Q. destruct Q as [Q1 Q2]. destruct prev as [p|]; [|apply IH; assumption].
    apply negb_true_iff in Q1. rewrite Q1. apply IH; assumption.
Qed.

Theorem ns_quiet_noop : forall f s r,
  (forall e, cdesc s r e -> kind_of s e = Some KEl -> quiet s None (children_of s e) = true) -> ns f s r = s.
Proof.
  induction f as [|f IH]; intros s r H; cbn [ns]; [reflexivity|].
  destruct (kind_of s r) as [k|] eqn:Kr; [|reflexivity]. destruct k; try reflexivity.
  apply nl_quiet_noop; [|apply H; [apply cd_self | exact Kr]].
  intros c Hc Kc. apply IH. intros e He Ke. apply H; [|exact Ke]. eapply cd_step; eassumption.
Qed.
