(** * C04 / C03: the rungs at the fuel [run] actually uses, and the depth family.

    [parses] facts hold "for all sufficiently large fuel"; the parser is called with
    [fuel_bound R s].  Fuel monotonicity ([denote_mono]) and the termination theorem
    ([xml_grammar_terminates]) transfer every rung to the real entry points. *)
From Coq Require Import List NArith Arith Lia Bool.
From XmlRs Require Import Base.CPred Model.Peg Gen.XmlcharGen Gen.GrammarXmlGen Model.ParseActions
     Model.Info Model.Display Proofs.PegTermination Proofs.GrammarTermination Proofs.PegLemmas
     Proofs.DisplayLex Proofs.DisplayElem.
Import ListNotations.
Local Open Scope N_scope.

Lemma run_parses n s t r : parses G_xml (NT n) s t r -> run G_xml G_xml_R n s = Ok (t, r).
Proof. intros H. unfold run. apply parses_at; [exact H|]. apply (xml_grammar_terminates n s). Qed.

Lemma parse_with_yields {A} n (view : val -> option A) s v a r :
  yields (NT n) s v r -> view v = Some a -> parse_with n view s = POk (a, r).
Proof.
  intros [t [Hp He]] Hv. unfold parse_with. rewrite (run_parses n s t r Hp). rewrite He, Hv. reflexivity.
Qed.

(** rung 2 at the entry point xml_parser::element *)
Theorem element_print_parse ents ext (i : item) (r : str) : is_element i = true -> item_wf ents ext i ->
  exists e, parse_element (d_item false i ++ r) = POk (e, r) /\ build_element ents ext e = IOk i.
Proof.
  intros Hi Hw. destruct (element_round_trip ents ext i Hi Hw r) as [e [Hy Hb]]. exists e. split; [|exact Hb].
  eapply parse_with_yields; [exact Hy|reflexivity].
Qed.

(** ** deep nesting: the family <a><a>...<a />...</a></a> *)
Fixpoint nest (n : nat) : item :=
  match n with
  | O => ItElement [97] None [] []
  | S k => ItElement [97] None [] [nest k]
  end.

Fixpoint item_depth (i : item) : nat :=
  match i with
  | ItElement _ _ _ children => S (fold_right (fun c m => Nat.max (item_depth c) m) O children)
  | _ => O
  end.

Lemma nest_depth n : item_depth (nest n) = S n.
Proof. induction n as [|n IH]; cbn [nest item_depth fold_right]; [reflexivity|]. rewrite IH. lia. Qed.

Lemma nest_wf n : item_wf [] false (nest n).
Proof.
  induction n as [|n IH]; cbn [nest item_wf children_wf]; repeat split; try constructor; try reflexivity.
  destruct n; cbn [nest] in *; (split; [exact IH|exact I]).
Qed.

Lemma nest_is_element n : is_element (nest n) = true.
Proof. destruct n; reflexivity. Qed.

(** for every depth there is a document that the parser accepts and whose infoset -- hence the
    recursion of XmlElement::node, of Display and of every traversal -- is that deep *)
Theorem depth_unbounded_proof : forall n, exists s e i,
  parse_element s = POk (e, []) /\ build_element [] false e = IOk i /\ (n <= item_depth i)%nat.
Proof.
  intros n. destruct (element_print_parse [] false (nest n) [] (nest_is_element n) (nest_wf n)) as [e [Hp Hb]].
  exists (d_item false (nest n) ++ []), e, (nest n). split; [exact Hp|]. split; [exact Hb|]. rewrite nest_depth. lia.
Qed.
