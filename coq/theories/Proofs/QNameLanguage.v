(** * The language of [qname] (and [prefixed_name]) of the regenerated grammar is QName. *)
From Coq Require Import List NArith Arith Lia Bool.
From XmlRs Require Import Base.CPred Spec.XmlChars Model.Peg Gen.XmlcharGen Gen.GrammarXmlGen
  Proofs.XmlcharProofs Proofs.PegTermination Proofs.NameLanguage.
Import ListNotations.
Local Open Scope nat_scope.

Definition nocolon (s : str) : Prop := existsb (N.eqb colon) s = false.

Lemma nocolon_cons x s : nocolon (x :: s) <-> N.eqb colon x = false /\ nocolon s.
Proof. unfold nocolon. cbn [existsb]. apply orb_false_iff. Qed.

Lemma nocolon_app a b : nocolon (a ++ b) <-> nocolon a /\ nocolon b.
Proof. unfold nocolon. rewrite existsb_app. apply orb_false_iff. Qed.

Lemma NCName_nocolon n : is_NCName n = true -> nocolon n.
Proof. unfold is_NCName, nocolon. intros H. apply andb_true_iff in H. destruct H as [_ H]. now apply negb_true_iff. Qed.

Lemma P0_colon : P0 colon = false.
Proof. unfold P0. rewrite N.eqb_refl. apply andb_false_r. Qed.

(** ** what [ncname_spec] returns *)
Lemma ncname_spec_ok s t r : ncname_spec s = Ok (t, r) ->
  exists n, s = n ++ r /\ t = TStr n /\ is_NCName n = true /\
            match r with [] => True | y :: _ => P0 y = false end.
Proof.
  destruct s as [|x u]; cbn [ncname_spec]; [discriminate|].
  destruct (P1 x) eqn:E1; [|discriminate].
  destruct (span P0 u) as [c d] eqn:Ec. intros H. injection H as <- <-.
  destruct (span_spec _ _ _ _ Ec) as (-> & Hc & Hd).
  exists (x :: c). repeat split; auto.
  apply ncname_spec_accepts. cbn [ncname_spec]. rewrite E1, (span_all _ _ Hc). eauto.
Qed.

Lemma ncname_spec_app p y l : is_NCName p = true -> P0 y = false ->
  ncname_spec (p ++ y :: l) = Ok (TStr p, y :: l).
Proof.
  intros Hp Hy. apply ncname_spec_accepts in Hp. destruct Hp as [t Hp].
  destruct p as [|x u]; cbn [ncname_spec] in Hp; [discriminate|]. cbn [app ncname_spec].
  destruct (P1 x); [|discriminate]. destruct (span P0 u) as [c d] eqn:Ec. injection Hp as _ ->.
  destruct (span_spec _ _ _ _ Ec) as (Hu & Hc & _). rewrite app_nil_r in Hu. subst c.
  now rewrite (span_app_stop _ _ _ _ Hc Hy).
Qed.

Lemma ncname_spec_noof s : ncname_spec s <> Oof.
Proof. destruct s as [|x u]; cbn [ncname_spec]; [discriminate|]. destruct (P1 x); [|discriminate]. destruct (span P0 u). discriminate. Qed.

(** ** prefixed_name and qname *)
Lemma body_prefixed : body G_xml nt_prefixed_name =
  Map L_model_PrefixedName_from (Seq (NT nt_ncname) (SeqR (Tag [58%N]) (NT nt_ncname))).
Proof. reflexivity. Qed.

Lemma body_qname : body G_xml nt_qname =
  Alt (Map L_model_QName_from (NT nt_prefixed_name)) (Map L_model_QName_from (NT nt_ncname)).
Proof. reflexivity. Qed.

Definition prefixed_spec (s : str) : res (tree * str) :=
  match ncname_spec s with
  | Ok (t1, r1) =>
    match prefix [58%N] r1 with
    | Some r2 =>
      match ncname_spec r2 with
      | Ok (t2, r3) => Ok (TMap L_model_PrefixedName_from (TPair t1 t2), r3)
      | Fail => Fail
      | Oof => Oof
      end
    | None => Fail
    end
  | Fail => Fail
  | Oof => Oof
  end.

Lemma den_prefixed f s : denote G_xml (S (S f)) (NT nt_prefixed_name) s = prefixed_spec s.
Proof.
  rewrite den_NT, body_prefixed. rewrite denote_eq. cbn [den1].
  rewrite (denote_eq _ _ (Seq _ _)). cbn [den1]. rewrite den_ncname. unfold prefixed_spec.
  destruct (ncname_spec s) as [[t1 r1]| |]; cbn [bind fst snd]; try reflexivity.
  rewrite (denote_eq _ _ (SeqR _ _)). cbn [den1]. rewrite (denote_eq _ _ (Tag _)). cbn [den1].
  destruct (prefix [58%N] r1) as [r2|]; cbn [bind fst snd]; [|reflexivity].
  rewrite den_ncname. destruct (ncname_spec r2) as [[t2 r3]| |]; reflexivity.
Qed.

Definition qname_spec (s : str) : res (tree * str) :=
  match prefixed_spec s with
  | Ok (t, r) => Ok (TMap L_model_QName_from t, r)
  | Fail => match ncname_spec s with
            | Ok (t, r) => Ok (TMap L_model_QName_from t, r)
            | Fail => Fail
            | Oof => Oof
            end
  | Oof => Oof
  end.

Lemma den_qname f s : denote G_xml (S (S (S f))) (NT nt_qname) s = qname_spec s.
Proof.
  rewrite den_NT, body_qname. rewrite denote_eq. cbn [den1].
  rewrite (denote_eq _ _ (Map _ (NT nt_prefixed_name))). cbn [den1]. rewrite den_prefixed.
  unfold qname_spec. destruct (prefixed_spec s) as [[t r]| |]; cbn [bind fst snd]; try reflexivity.
  rewrite (denote_eq _ _ (Map _ (NT nt_ncname))). cbn [den1]. rewrite den_ncname.
  destruct (ncname_spec s) as [[t r]| |]; reflexivity.
Qed.

(** ** the first colon *)
Lemma split_colon_none s : split_colon s = None -> nocolon s.
Proof.
  induction s as [|c s IH]; cbn [split_colon]; [reflexivity|].
  destruct (N.eqb_spec c colon) as [->|Hne]; [discriminate|].
  destruct (split_colon s) as [[p l]|]; [discriminate|]. intros _.
  apply nocolon_cons. split; [|now apply IH]. apply N.eqb_neq. congruence.
Qed.

Lemma split_colon_some s p l : split_colon s = Some (p, l) -> s = p ++ colon :: l /\ nocolon p.
Proof.
  revert p l; induction s as [|c s IH]; intros p l; cbn [split_colon]; [discriminate|].
  destruct (N.eqb_spec c colon) as [->|Hne].
  - intros H; injection H as <- <-. split; reflexivity.
  - destruct (split_colon s) as [[p' l']|]; [|discriminate]. intros H; injection H as <- <-.
    destruct (IH p' l' eq_refl) as [-> Hp]. split; [reflexivity|].
    apply nocolon_cons. split; [|exact Hp]. apply N.eqb_neq. congruence.
Qed.

Lemma first_colon_unique : forall n p l r, nocolon p -> nocolon n ->
  p ++ colon :: l = n ++ r -> exists m, p = n ++ m /\ r = m ++ colon :: l.
Proof.
  induction n as [|x n IH]; intros p l r Hp Hn E.
  - exists p. split; [reflexivity|]. cbn [app] in E. symmetry. exact E.
  - destruct p as [|y p].
    + cbn [app] in E. injection E as E1 E2. apply nocolon_cons in Hn. destruct Hn as [Hx _].
      subst x. rewrite N.eqb_refl in Hx. discriminate.
    + cbn [app] in E. injection E as -> E2. apply nocolon_cons in Hp. apply nocolon_cons in Hn.
      destruct (IH p l r (proj2 Hp) (proj2 Hn) E2) as [m [-> ->]]. exists m. split; reflexivity.
Qed.

Lemma prefix_colon r : match prefix [58%N] r with Some r2 => r = colon :: r2 | None => forall r2, r <> colon :: r2 end.
Proof.
  destruct r as [|y r]; cbn [prefix]; [intros r2; discriminate|].
  destruct (N.eqb_spec 58 y) as [<-|Hne]; [reflexivity|]. intros r2 H. injection H as H _. apply Hne. now rewrite H.
Qed.

Lemma qname_spec_accepts s : (exists t, qname_spec s = Ok (t, [])) <-> is_QName s = true.
Proof.
  unfold is_QName. destruct (split_colon s) as [[p l]|] eqn:Es.
  - (* s = p : l *)
    destruct (split_colon_some _ _ _ Es) as [-> Hp].
    destruct (is_NCName p) eqn:Ep; cbn [andb].
    + unfold qname_spec, prefixed_spec. rewrite (ncname_spec_app p colon l Ep P0_colon).
      change (prefix [58%N] (colon :: l)) with (Some l). cbv beta iota.
      destruct (ncname_spec l) as [[t2 r3]| |] eqn:El.
      * split.
        -- intros [t H]. injection H as _ ->. apply ncname_spec_accepts. eauto.
        -- intros H. apply ncname_spec_accepts in H. destruct H as [t' H]. rewrite El in H. injection H as _ ->. eauto.
      * split; [intros [t H]; discriminate|].
        intros H. apply ncname_spec_accepts in H. destruct H as [t' H]. rewrite El in H. discriminate.
      * exfalso. eapply ncname_spec_noof; eauto.
    + split; [|discriminate]. intros [t H]. exfalso.
      unfold qname_spec, prefixed_spec in H.
      destruct (ncname_spec (p ++ colon :: l)) as [[t1 r1]| |] eqn:E1; try discriminate.
      destruct (ncname_spec_ok _ _ _ E1) as (n & En & _ & Hn & Hr).
      destruct (first_colon_unique n p l r1 Hp (NCName_nocolon _ Hn) En) as (m & -> & ->).
      destruct m as [|y m].
      * rewrite app_nil_r in Ep. congruence.
      * cbn [app] in H. apply nocolon_app in Hp. destruct Hp as [_ Hp]. apply nocolon_cons in Hp. destruct Hp as [Hy _].
        cbn [prefix] in H. change 58%N with colon in H. rewrite Hy in H. discriminate.
  - (* no colon *)
    pose proof (split_colon_none _ Es) as Hs.
    unfold qname_spec, prefixed_spec.
    destruct (ncname_spec s) as [[t1 r1]| |] eqn:E1.
    + destruct (ncname_spec_ok _ _ _ E1) as (n & -> & _ & Hn & Hr).
      apply nocolon_app in Hs. destruct Hs as [_ Hs].
      assert (Hpre : prefix [58%N] r1 = None).
      { destruct r1 as [|y r1]; [reflexivity|]. apply nocolon_cons in Hs. destruct Hs as [Hy _].
        cbn [prefix]. change 58%N with colon. now rewrite Hy. }
      rewrite Hpre. split.
      * intros [t H]. injection H as _ ->. rewrite app_nil_r. exact Hn.
      * intros H. apply ncname_spec_accepts in H. destruct H as [t' H]. rewrite E1 in H. injection H as _ ->. eauto.
    + split; [intros [t H]; discriminate|]. intros H. apply ncname_spec_accepts in H. destruct H as [t' H].
      rewrite E1 in H. discriminate.
    + exfalso. eapply ncname_spec_noof; eauto.
Qed.

Theorem qname_language : forall s, accepts nt_qname s <-> is_QName s = true.
Proof.
  intros s. unfold accepts, run. destruct (fuel4 s) as [k ->]. rewrite den_qname. apply qname_spec_accepts.
Qed.

(** the same three productions exist, with the same bodies, in the XPath grammar (they come
    from nom/src/lib.rs); the check compares the two generated bodies by computation *)
