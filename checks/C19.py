"""C19 -- parsing and querying are deterministic and side-effect free (evaluation context)."""
import time
from . import lib
from . import xpath_common as X

def sequences(rng, n):
    g = X.Gen(rng)
    out, docs = [], []
    for k in range(n):
        if not docs or rng.random() < 0.5:
            docs.append(X.gen_doc(rng, {'pi': rng.random() < 0.08}))
        d = rng.choice(docs[-3:])
        m = rng.randint(2, 8)
        seq = []
        for _ in range(m):
            t = rng.random()
            depth = rng.choice([1, 2, 2, 3])
            e = g.nodeset(depth) if t < 0.5 else g.boolean(depth) if t < 0.65 else g.number(depth) if t < 0.85 else g.string(depth)
            if rng.random() < 0.34:        # a third of the queries fail, in a nested position
                e = X.inject(rng, e, rng.choice(X.ERRORS))
            elif rng.random() < 0.1:
                e = rng.choice([('call', 'position', []), ('call', 'last', []), ('bin', '+', ('call', 'position', []), ('call', 'last', []))])
            seq.append(e)
        binds = [('p', 'urn:p'), ('q', 'urn:q')]
        out.append({'doc': d, 'exprs': seq, 'merged': rng.random() < 0.7, 'binds': binds})
    return out

# documents in which one piece of information is reachable by several routes (an entity used in an
# attribute value and in content, a defaulted attribute, inherited namespace declarations): a lazily
# computed or cached value stored in the DOCUMENT shows up as a dependence on the order of the queries
LAZY_DOCS = [
    ('<!DOCTYPE r [<!ENTITY sep "a&#10;b"><!ENTITY t "x&#9;y  z">]><r x="&sep;" y="&t;">&sep;<c z="&t;">&t;</c><c z="q"/></r>',
     ['string(/r)', 'string(/r/@x)', 'string(/r/@y)', 'string(//c)', 'string(//c/@z)', 'count(//@*)', 'string(/r/text())', 'normalize-space(/r)']),
    ('<!DOCTYPE r [<!ATTLIST c d CDATA "dv" e NMTOKENS " a  b "><!ENTITY e "v">]><r><c/><c d="w" e="  k ">&e;</c></r>',
     ['//c/@d', 'string(//c[1]/@e)', 'string(//c[2]/@e)', 'count(//c/@*)', 'string(//c[2])', '//c[@d="dv"]', 'name(//c[1]/@*[1])']),
    ('<r xmlns="urn:d" xmlns:p="urn:p"><a><p:a x="1"/></a><a xmlns=""><a p:x="2"/></a></r>',
     ['count(//p:a)', 'namespace-uri(//*[3])', 'namespace-uri(//*[4])', 'count(//@p:x)', 'name(/*)', 'count(//*[namespace-uri()=""])', 'local-name(//*[last()])']),
]

def lazy_state_cases(rng, quick):
    out = []
    for doc, pool in LAZY_DOCS:
        pairs = [(a, b) for a in pool for b in pool if a != b]
        if quick:
            rng.shuffle(pairs); pairs = pairs[:30]
        for a, b in pairs:
            out.append({'doc': doc, 'exprs': [a, b, a], 'merged': True, 'binds': [('p', 'urn:p')], 'cold': True})
    return out

def default_binding_sequences(rng, n):
    """the caller binds the default prefix; a failing query must not change how later unprefixed names resolve"""
    g = X.Gen(rng)
    out = []
    for k in range(n):
        d = X.gen_doc(rng, {'ns': True, 'dflt': True, 'pi': False})
        probes = [g.nodeset(rng.choice([1, 2])) for _ in range(2)] + [('path', '//', [('/', ('step', None, rng.choice(X.NAMES), []))])]
        fail = X.inject(rng, g.nodeset(2), rng.choice(X.ERRORS))
        seq = probes + [fail] + probes
        out.append({'doc': d, 'exprs': seq, 'merged': True, 'binds': [(None, 'urn:d'), ('p', 'urn:p'), ('q', 'urn:q')], 'cold': True})
    return out

def c19_oracle(case, out, item):
    """shared-context results against fresh-context results for one concrete case -> class or None"""
    if out.get('hang'):
        return 'hang'
    if out.get('U') == '0':
        return 'document-changed'
    fresh = X.run_impl([{'doc': case['doc'], 'exprs': [e], 'merged': case.get('merged', True), 'binds': case.get('binds', [])}
                        for e in case['exprs']])
    return compare_shared_fresh(out, fresh)[0]

def compare_shared_fresh(shared, fresh):
    panicked = False
    for k, v in enumerate(shared['R']):
        if (v[1], v[2]) != (0, 0) and not panicked:
            return 'context-leak', 'after query %d the shared context answers position()=%d last()=%d' % (k, v[1], v[2])
        f = fresh[k]
        if f.get('hang') or not f.get('R'):
            continue
        if f['R'][0][0] != v[0]:
            return ('after-panic' if panicked else 'sequence-dependence'), 'query %d answers %s with the shared context, %s with a fresh one' % (k, v[0], f['R'][0][0])
        if v[0] == 'panic':
            panicked = True
    return None, ''

def cold_runs(run, cases):
    """each sequence on a freshly parsed document nothing else has read, one shared context, against
    each of its queries alone on another fresh parse with a fresh context (implementation only: this
    family is about state the model does not have)"""
    if not cases:
        return []
    def conc(c):
        return {'doc': c['doc'] if isinstance(c['doc'], str) else X.render_doc(c['doc']),
                'exprs': [e if isinstance(e, str) else X.render(e) for e in c['exprs']],
                'merged': c.get('merged', True), 'binds': c.get('binds', []), 'cold': True}
    cases = [conc(c) for c in cases]
    shared = X.run_impl(cases)
    singles, index = [], []
    for k, c in enumerate(cases):
        for j, e in enumerate(c['exprs']):
            singles.append(dict(c, exprs=[e])); index.append((k, j))
    fresh = X.run_impl(singles)
    fr = {}
    for (k, j), o in zip(index, fresh):
        fr[(k, j)] = o
    failing = []
    for k, (c, o) in enumerate(zip(cases, shared)):
        run.evaluations += len(c['exprs'])
        run.count('cold-sequences')
        run.nontrivial.add((c['doc'], tuple(c['exprs'])))
        if o.get('hang') or not o.get('C'):
            continue
        for j, e in enumerate(c['exprs']):
            f = fr.get((k, j))
            if not f or not f.get('C') or j >= len(o['C']):
                continue
            if o['C'][j] != f['C'][0]:
                failing.append({'property': 'C19', 'class': 'query-order-dependence',
                    'what': 'query %d (%s) answers %s after the earlier queries of the sequence and %s alone on a fresh parse with a fresh context' % (j, e, o['C'][j], f['C'][0]),
                    'doc': c['doc'], 'exprs': c['exprs'], 'binds': [[p, u] for p, u in c['binds']]})
                break
    return failing

def rebinding_runs(run, n):
    """the caller changes the namespace bindings of ONE context between queries (Context::add_ns /
    remove_ns): every query must answer what it answers with a fresh context that carries the bindings in
    effect at that moment (implementation only: the control words `#bind` / `#unbind` of the harness)"""
    rng = run.rng
    g = X.Gen(rng, {'prefix': 0.5})
    cases, plans = [], []
    for k in range(n):
        d = X.render_doc(X.gen_doc(rng, {'ns': True, 'dflt': rng.random() < 0.5, 'pi': False}))
        binds = [('p', 'urn:p'), ('q', 'urn:q')] + ([(None, 'urn:d')] if rng.random() < 0.5 else [])
        probes = [X.render(g.nodeset(rng.choice([1, 2]))) for _ in range(2)] + ['//p:*', '//q:*', '//*', 'count(//%s)' % rng.choice(X.NAMES), '//p:%s' % rng.choice(X.NAMES)]
        rng.shuffle(probes)
        probes = probes[:4]
        env = dict(binds)
        seq, expect = [], []
        for p_ in probes:
            seq.append(p_); expect.append(dict(env))
        for _ in range(rng.choice([1, 2, 3])):
            r = rng.random()
            if r < 0.45:
                pre = rng.choice(['p', 'q', None])
                seq.append('#unbind %s' % (pre or '~')); expect.append(None)
                env.pop(pre, None)
            else:
                pre, uri = rng.choice(['p', 'q', None, 'r']), rng.choice(['urn:p', 'urn:q', 'urn:d', 'urn:other'])
                seq.append('#bind %s %s' % (pre or '~', uri)); expect.append(None)
                env[pre] = uri
            for p_ in probes:
                seq.append(p_); expect.append(dict(env))
        cases.append({'doc': d, 'exprs': seq, 'merged': True, 'binds': binds})
        plans.append(expect)
    shared = X.run_impl(cases)
    singles, index = [], []
    for k, (c, plan) in enumerate(zip(cases, plans)):
        for j, (e, env) in enumerate(zip(c['exprs'], plan)):
            if env is not None:
                singles.append({'doc': c['doc'], 'exprs': [e], 'merged': True, 'binds': list(env.items())}); index.append((k, j))
    fresh = X.run_impl(singles)
    fr = dict(zip(index, fresh))
    failing = []
    for k, (c, o) in enumerate(zip(cases, shared)):
        run.count('rebinding-sequences')
        run.nontrivial.add((c['doc'], tuple(c['exprs'])))
        if o.get('hang') or not o.get('R'):
            continue
        for j, e in enumerate(c['exprs']):
            f = fr.get((k, j))
            if f is None or not f.get('R') or j >= len(o['R']):
                continue
            run.evaluations += 1
            if o['R'][j][0] != f['R'][0][0]:
                failing.append({'property': 'C19', 'class': 'rebinding-dependence',
                    'what': 'query %d (%s) answers %s on the context whose bindings were changed by the earlier control words, and %s with a fresh context carrying the same bindings' % (j, e, o['R'][j][0], f['R'][0][0]),
                    'doc': c['doc'], 'exprs': c['exprs'], 'binds': [[p_, u] for p_, u in c['binds']]})
                break
    return failing

def check(run):
    t0 = time.time()
    run.trusted = ['Coq 8.16.1 kernel + VM', 'Model/XPathEval.v threading the Context (tied by the xpath correspondence on shared-context sequences)',
                   'harness/src/domains/xpath.rs (one Context per case, probes position()/last() after each query, serialisation before/after)']
    proved, _ = lib.proof_step(run, 'C19', [])
    okr, mok, _ = lib.build_binaries(run, model_areas=['xpath'])
    if not (okr and mok.get('xpath')):
        return run.finish(level='proof', rule='(binaries missing)')
    n = 400 if run.tier == 'quick' else 5000
    extra = lazy_state_cases(run.rng, run.tier == 'quick') + default_binding_sequences(run.rng, 40 if run.tier == 'quick' else 400)
    cold_failing = cold_runs(run, extra) + rebinding_runs(run, 60 if run.tier == 'quick' else 600)
    items = sequences(run.rng, n) + X.corpus_items('C19')
    res, okm = X.evaluate(items)
    if not okm:
        run.tie_breaks.append('model driver failed on some case')
    # fresh-context runs: one case per query
    fresh_cases, index = [], []
    for k, r in enumerate(res):
        if r['impl'] is None or not r['dump'].get('D') or r['impl'].get('hang'):
            continue
        for j, e in enumerate(r['case']['exprs']):
            fresh_cases.append({'doc': r['case']['doc'], 'exprs': [e], 'merged': r['case']['merged'], 'binds': r['case']['binds']})
            index.append((k, j))
    fresh_out = X.run_impl(fresh_cases)
    fresh = {}
    for (k, j), o in zip(index, fresh_out):
        fresh.setdefault(k, {})[j] = o
    failing = []
    for k, (it, r) in enumerate(zip(items, res)):
        X.account(run, it, r)
        if r['impl'] is None or not r['dump'].get('D'):
            continue
        d = X.compare_model(r)
        if d:
            run.tie_breaks.append('model/implementation: ' + d + ' | doc ' + r['case']['doc'][:200])
        if r['impl'].get('hang'):
            failing.append((it, r, 'hang', 'evaluation does not terminate'))
            continue
        run.evaluations += len(r['impl']['R'])
        errs = sum(1 for v in r['impl']['R'] if v[0].startswith('err:'))
        run.count('failing-queries', errs)
        if errs and errs < len(r['impl']['R']):
            run.nontrivial.add((r['case']['doc'], tuple(r['case']['exprs'])))
        if r['impl'].get('U') != '1':
            failing.append((it, r, 'document-changed', 'serialisation or XDoc dump differs after the queries'))
            continue
        fl = [fresh[k][j] for j in range(len(r['case']['exprs']))] if k in fresh else None
        if fl:
            cls, detail = compare_shared_fresh(r['impl'], fl)
            if cls:
                failing.append((it, r, cls, detail))
    X.report_failures(run, 'C19', failing, oracle=c19_oracle)
    for fi in cold_failing:
        run.failing_inputs.append(fi)
    # one evaluation context re-used across the EDITS of a DOM history (shared dom campaign)
    try:
        from . import domlib as D
        for g in D.query_findings(run, ('query-shared-context',)):
            run.failing_inputs.append({'property': 'C19', 'class': 'context-reused-across-edits', 'what': g['what'], 'docs': g['docs'], 'ops': g['ops'], 'view': g['view'], 'clause': g['clause']})
    except Exception as ex:
        run.notes.append('edited-document stream not run: %r' % (ex,))

    run.extra['wall_generate_evaluate_s'] = round(time.time() - t0, 1)
    return run.finish(level='proof',
        rule='cases = queries evaluated in a shared-context sequence; non-trivial = distinct sequences mixing failing and succeeding queries',
        assumptions=['Context is only reachable through the pushes/pops of eval/mod.rs (private fields)',
                     'purity of the document is observed (serialisation + XDoc dump before/after), not proved: the evaluator model has no document in its result type'])

def replay(path):
    return X.replay(path)
